"""R-STAT: the summary accumulation idiom in normal form.

  update:  X.bases_covered += L ; X.min_val = min(X.min_val, V) ; X.max_val = max(X.max_val, V)
           X.sum += L*V ; X.sum_squares += L*V*V           (one L, one V per block; * commutative)
  seed:    Summary{bases_covered: L, min_val: V, max_val: V, sum: L*V, sum_squares: L*V*V}
  merge:   X.f += Y.f (total_items, bases_covered, sum, sum_squares) ; X.min_val = min(X.min_val, Y.min_val) ; max likewise
"""
from __future__ import annotations
from ..astq import Node, up, strip, strip_cast, walk_no_nested_fn

FIELDS = ("bases_covered", "min_val", "max_val", "sum", "sum_squares")


def factors(n):
    """multiset of canonical factor texts of a product (casts / f64::from stripped)"""
    n = strip_cast(n)
    if isinstance(n, Node) and n.k == "binary" and n["op"] == "*":
        return factors(n["l"]) + factors(n["r"])
    return [up(n)]


def summary_blocks(root):
    """group `<base>.<field> (+=|=) rhs` statements by (enclosing block, base) where field in FIELDS|total_items"""
    groups = {}
    for n in walk_no_nested_fn(root):
        if n.k == "binary" and n["op"] == "+=" or n.k == "assign":
            l = strip(n["l"])
            if isinstance(l, Node) and l.k == "field" and l["member"] in FIELDS + ("total_items",):
                base = up(strip(l["base"]))
                blk = n.parent
                while blk is not None and blk.k != "block":
                    blk = blk.parent
                key = (id(blk), base)
                g = groups.setdefault(key, {"block": blk, "base": base, "fields": {}, "nodes": []})
                g["fields"].setdefault(l["member"], []).append((("+=" if n.k == "binary" else "="), n["r"], n))
                g["nodes"].append(n)
    return [g for g in groups.values() if len([f for f in g["fields"] if f in FIELDS]) >= 3]


def summary_literals(root):
    out = []
    for n in walk_no_nested_fn(root):
        if n.k == "struct" and n["path"].split("::")[-1] == "Summary":
            out.append(n)
    return out


def check_update(g):
    """-> (L, V, None) or (None, None, error message)"""
    f = g["fields"]
    base = g["base"]
    for name in FIELDS:
        if name not in f:
            return None, None, "field %s is not updated" % name
        if len(f[name]) != 1:
            return None, None, "field %s is updated %d times in one block" % (name, len(f[name]))
    op, rhs, _ = f["bases_covered"][0]
    if op != "+=":
        return None, None, "bases_covered must be accumulated with +="
    Lf = factors(rhs)
    if len(Lf) != 1:
        return None, None, "bases_covered += %s is not a single length" % up(rhs)
    L = Lf[0]
    V = None
    for name, fn_ in (("min_val", "min"), ("max_val", "max")):
        op, rhs, _ = f[name][0]
        r = strip(rhs)
        if op != "=" or not (r.k == "mcall" and r["method"] == fn_ and len(r["args"]) == 1):
            return None, None, "%s must be `%s.%s = %s.%s.%s(v)`; got `%s %s %s`" % (name, base, name, base, name, fn_, name, op, up(rhs))
        recv, arg = up(strip(r["recv"])), up(strip_cast(r["args"][0]))
        self_ = "%s.%s" % (base, name)
        if recv == self_:
            v = arg
        elif arg == self_:
            v = recv
        else:
            return None, None, "%s is not folded with its own previous value: `%s`" % (name, up(rhs))
        if V is None:
            V = v
        elif V != v:
            return None, None, "min and max fold different values (%s vs %s)" % (V, v)
    def _inl(rhs_):
        """hoisted products (`let weighted = len * val`) inlined, keeping the length and value locals as names"""
        try:
            from ..astq import tnorm_keeping
            fn_ = getattr(strip(rhs_), "fn", None) or getattr(rhs_, "fn", None)
            return tnorm_keeping(fn_, rhs_, (L, V)) if fn_ is not None else rhs_
        except Exception:
            return rhs_
    op, rhs, _ = f["sum"][0]
    rhs = _inl(rhs)
    if op != "+=" or sorted(factors(rhs)) != sorted([L, V]):
        return None, None, "sum must be `+= len * val` with len=%s, val=%s; got `%s %s`" % (L, V, op, up(rhs))
    op, rhs, _ = f["sum_squares"][0]
    rhs = _inl(rhs)
    if op != "+=" or sorted(factors(rhs)) != sorted([L, V, V]):
        return None, None, "sum_squares must be `+= len * val * val` with len=%s, val=%s; got `%s %s`" % (L, V, op, up(rhs))
    return L, V, None


def check_seed(lit, allow_zero=False):
    """Summary literal seeded from one item: -> (L, V, None) | (None,None,err). A zero-initialised literal
    (bases 0, sums 0.0) returns ('0', V, None) with V the min/max seed."""
    f = {x["name"]: x["e"] for x in lit["fields"]}
    for name in FIELDS:
        if name not in f:
            return None, None, "Summary literal lacks %s" % name
    Lf = factors(f["bases_covered"])
    vmin, vmax = up(strip_cast(f["min_val"])), up(strip_cast(f["max_val"]))
    if len(Lf) != 1:
        return None, None, "bases_covered seed is not a single length"
    L = Lf[0]
    if L == "0":
        if up(strip_cast(f["sum"])) not in ("0.0", "0") or up(strip_cast(f["sum_squares"])) not in ("0.0", "0"):
            return None, None, "zero-initialised record must have zero sums"
        return "0", (vmin, vmax), None
    if vmin != vmax:
        return None, None, "min/max seeded with different values (%s, %s)" % (vmin, vmax)
    V = vmin
    if sorted(factors(f["sum"])) != sorted([L, V]):
        return None, None, "sum seed must be len*val (len=%s, val=%s); got %s" % (L, V, up(f["sum"]))
    if sorted(factors(f["sum_squares"])) != sorted([L, V, V]):
        return None, None, "sum_squares seed must be len*val*val; got %s" % up(f["sum_squares"])
    return L, V, None


def check_merge(g):
    """-> (other_base, None) | (None, err)"""
    f = g["fields"]
    base = g["base"]
    other = None
    for name in ("total_items", "bases_covered", "sum", "sum_squares"):
        if name not in f or len(f[name]) != 1:
            return None, "field %s must be merged exactly once" % name
        op, rhs, _ = f[name][0]
        r = strip(rhs)
        if op != "+=" or r.k != "field" or r["member"] != name:
            return None, "%s must be merged as `%s.%s += other.%s`; got `%s %s`" % (name, base, name, name, op, up(rhs))
        ob = up(strip(r["base"]))
        if other is None:
            other = ob
        elif other != ob:
            return None, "fields merged from different summaries (%s, %s)" % (other, ob)
    for name, fn_ in (("min_val", "min"), ("max_val", "max")):
        if name not in f or len(f[name]) != 1:
            return None, "field %s must be merged exactly once" % name
        op, rhs, _ = f[name][0]
        r = strip(rhs)
        if op != "=" or not (r.k == "mcall" and r["method"] == fn_ and len(r["args"]) == 1):
            return None, "%s must be merged with %s()" % (name, fn_)
        a, b = up(strip(r["recv"])), up(strip(r["args"][0]))
        if {a, b} != {"%s.%s" % (base, name), "%s.%s" % (other, name)}:
            return None, "%s merge folds `%s` and `%s`, expected %s.%s and %s.%s" % (name, a, b, base, name, other, name)
    return other, None
