"""Recognisers for repository idioms (enumerated; anything else = not recognised)."""
from __future__ import annotations
from ..astq import Node, up, strip, strip_cast, walk_no_nested_fn, resolve_local, binding_before
from .layout import origin


def closure_field(c, field_chain=None):
    """closure |x| x.a.b  -> ['a','b'] (or None)."""
    c = strip(c)
    if not (isinstance(c, Node) and c.k == "closure" and len(c["inputs"]) == 1):
        return None
    p = c["inputs"][0]
    while p.k in ("p_ref", "p_type"):
        p = p["pat"]
    if p.k != "p_ident":
        return None
    var = p["name"]
    b = strip(c["body"])
    if b.k == "block" and len(b["stmts"]) == 1 and b["stmts"][0].k == "expr_stmt":
        b = strip(b["stmts"][0]["e"])
    chain = []
    while isinstance(b, Node) and b.k == "field":
        chain.append(b["member"])
        b = strip(b["base"])
    if isinstance(b, Node) and b.k == "path" and b["path"] == var:
        return list(reversed(chain))
    return None


def _unwrapish(n):
    n = strip(n)
    while isinstance(n, Node) and n.k == "mcall" and n["method"] in ("unwrap", "expect", "unwrap_or", "unwrap_or_default"):
        n = strip(n["recv"])
    return n


def _iter_of(n):
    """X.iter() / X.into_iter() / X  -> X node"""
    n = strip(n)
    if isinstance(n, Node) and n.k == "mcall" and n["method"] in ("iter", "into_iter") and not n["args"]:
        return strip(n["recv"])
    return None


def reduction_over(fn, n, op):
    """if n is `op`-reduction (op = 'max'|'min') over a field chain of every element of a
    collection, return (collection_origin, field_chain) else None.
    Accepted idioms:
      C.iter().map(|x| x.f).max().unwrap()
      C.iter().map(|x| x.f).fold(init, u32::max)      / fold(init, |a, b| a.max(b))
      C.iter().fold(init, |a, x| a.max(x.f))
      C.iter().max_by_key(|x| x.f).unwrap().f
      a local `let mut m = ..;` updated only by `m = m.max(x.f)` in a `for x in C.iter()` loop
    """
    n = _unwrapish(n)
    if not isinstance(n, Node):
        return None
    # follow a local
    if n.k == "path" and "::" not in n["path"]:
        sites = _let_sites(fn, n)
        if len(sites) == 1 and _tuple_elem(sites[0]) is not None:
            return reduction_over(fn, _tuple_elem(sites[0]), op)
        if len(sites) == 1 and sites[0][-1] == ():
            let = sites[0][1]
            name = n["path"]
            if let["pat"].k == "p_ident" and let["pat"]["mut"]:
                r = _loop_accumulate(fn, let, name, op)
                if r is not None:
                    return r
            if let.get("init") is not None:
                return reduction_over(fn, let["init"], op)
        return None
    if n.k == "mcall" and n["method"] == op and not n["args"]:
        m = strip(n["recv"])
        if m.k == "mcall" and m["method"] == "map" and len(m["args"]) == 1:
            ch = closure_field(m["args"][0])
            c = _iter_of(m["recv"])
            if ch is not None and c is not None:
                return (origin(fn, c), ch)
    if n.k == "mcall" and n["method"] == "fold" and len(n["args"]) == 2:
        f = strip(n["args"][1])
        recv = strip(n["recv"])
        if f.k == "path" and f["path"].split("::")[-1] == op:
            if recv.k == "mcall" and recv["method"] == "map" and len(recv["args"]) == 1:
                ch = closure_field(recv["args"][0])
                c = _iter_of(recv["recv"])
                if ch is not None and c is not None:
                    return (origin(fn, c), ch)
        if f.k == "closure" and len(f["inputs"]) == 2:
            a = f["inputs"][0]
            x = f["inputs"][1]
            if a.k == "p_ident" and x.k in ("p_ident",):
                b = strip(f["body"])
                got = _binop_minmax(b, op)
                if got is not None:
                    l, r = got
                    for acc, other in ((l, r), (r, l)):
                        if up(strip(acc)) == a["name"]:
                            ch = []
                            o = strip_cast(other)
                            while isinstance(o, Node) and o.k == "field":
                                ch.append(o["member"])
                                o = strip(o["base"])
                            if isinstance(o, Node) and o.k == "path" and o["path"] == x["name"]:
                                c = _iter_of(recv)
                                if c is not None:
                                    return (origin(fn, c), list(reversed(ch)))
                                if recv.k == "mcall" and recv["method"] == "map":
                                    ch2 = closure_field(recv["args"][0])
                                    c = _iter_of(recv["recv"])
                                    if ch2 is not None and c is not None and not ch:
                                        return (origin(fn, c), ch2)
    if n.k == "field":
        b = _unwrapish(n["base"])
        if b.k == "mcall" and b["method"] == op + "_by_key" and len(b["args"]) == 1:
            ch = closure_field(b["args"][0])
            c = _iter_of(b["recv"])
            if ch is not None and c is not None and ch == [n["member"]]:
                return (origin(fn, c), ch)
    return None


def _binop_minmax(b, op):
    b = strip(b)
    if b.k == "block" and len(b["stmts"]) == 1 and b["stmts"][0].k == "expr_stmt":
        b = strip(b["stmts"][0]["e"])
    if b.k == "mcall" and b["method"] == op and len(b["args"]) == 1:
        return b["recv"], b["args"][0]
    if b.k == "call" and isinstance(b["func"], Node) and b["func"].k == "path" and b["func"]["path"].split("::")[-1] == op and len(b["args"]) == 2:
        return b["args"][0], b["args"][1]
    return None


def _loop_accumulate(fn, let, name, op):
    """let mut name = init; ... for x in C.iter() { name = name.max(x.f) } (only assignments of that form)."""
    assigns = []
    for n in walk_no_nested_fn(fn.body):
        if n.k == "assign" and up(strip(n["l"])) == name:
            assigns.append(n)
        if n.k == "binary" and n["op"].endswith("=") and n["op"] not in ("==", "<=", ">=", "!=") and up(strip(n["l"])) == name:
            return None
    if not assigns:
        return None
    res = None
    for a in assigns:
        got = _binop_minmax(a["r"], op)
        if got is None:
            return None
        l, r = got
        other = None
        if up(strip(l)) == name:
            other = r
        elif up(strip(r)) == name:
            other = l
        if other is None:
            return None
        ch = []
        o = strip_cast(other)
        while isinstance(o, Node) and o.k == "field":
            ch.append(o["member"])
            o = strip(o["base"])
        if not (isinstance(o, Node) and o.k == "path"):
            return None
        # o must be the loop variable of an enclosing for over a collection
        p = a.parent
        found = None
        while p is not None and isinstance(p, Node):
            if p.k == "for" and p["pat"].k in ("p_ident",) and p["pat"]["name"] == o["path"]:
                found = p
                break
            p = p.parent
        if found is None:
            return None
        c = _iter_of(found["iter"]) or strip(found["iter"])
        r_ = (origin(fn, c), list(reversed(ch)))
        if res is not None and res != r_:
            return None
        res = r_
    return res


def _tuple_elem(site):
    """for a binding site `let (a, b, ..) = E` with selector (i,): the i-th element of E when E (or its tail through blocks) is a tuple literal"""
    if site[-1] == () or len(site[-1]) != 1 or not isinstance(site[-1][0], int) or site[1].get("init") is None:
        return None
    e = strip(site[1]["init"])
    while isinstance(e, Node) and e.k == "block":
        st = e["stmts"]
        if not st or st[-1].k != "expr_stmt" or st[-1].get("semi"):
            return None
        e = strip(st[-1]["e"])
    if isinstance(e, Node) and e.k == "tuple" and site[-1][0] < len(e["elems"]):
        return e["elems"][site[-1][0]]
    return None


def _let_sites(fn, n):
    """the `let` that binds the local named by path node n at that point (scope- and shadowing-aware); [] if it is not a let"""
    try:
        b = binding_before(fn, n["path"], n) if getattr(n, "order", -1) >= 0 else None
    except Exception:
        b = None
    if b is None and getattr(n, "order", -1) < 0:
        return [s for s in resolve_local(fn, n["path"]) if s[0] == "let"]
    return [b] if b is not None and b[0] == "let" else []


def first_of(fn, n):
    """n is `C[0].f...` / `C.first().unwrap().f...` / `C.iter().next().unwrap().f` -> (collection_origin, chain)"""
    n = strip_cast(n)
    chain = []
    while isinstance(n, Node) and n.k == "field":
        chain.append(n["member"])
        n = strip(n["base"])
    n = _unwrapish(n)
    if isinstance(n, Node) and n.k == "path" and "::" not in n["path"] and chain == []:
        sites = _let_sites(fn, n)
        if len(sites) == 1 and _tuple_elem(sites[0]) is not None:
            return first_of(fn, _tuple_elem(sites[0]))
        if len(sites) == 1 and sites[0][-1] == () and sites[0][1].get("init") is not None:
            return first_of(fn, sites[0][1]["init"])
        return None
    if isinstance(n, Node) and n.k == "index" and up(strip(n["index"])) == "0":
        return (origin(fn, n["base"]), list(reversed(chain)))
    if isinstance(n, Node) and n.k == "mcall" and n["method"] == "first" and not n["args"]:
        return (origin(fn, n["recv"]), list(reversed(chain)))
    if isinstance(n, Node) and n.k == "path" and "::" not in n["path"]:
        sites = _let_sites(fn, n)
        if len(sites) == 1 and sites[0][-1] == () and sites[0][1].get("init") is not None:
            r = first_of(fn, sites[0][1]["init"])
            if r is not None:
                return (r[0], r[1] + list(reversed(chain)))
    return None


def last_of(fn, n):
    """n is `C[C.len()-1].f` / `C.last().unwrap().f` -> (collection_origin, chain)"""
    n = strip_cast(n)
    chain = []
    while isinstance(n, Node) and n.k == "field":
        chain.append(n["member"])
        n = strip(n["base"])
    n = _unwrapish(n)
    if isinstance(n, Node) and n.k == "path" and "::" not in n["path"]:
        sites = _let_sites(fn, n)
        if len(sites) == 1 and _tuple_elem(sites[0]) is not None:
            r = last_of(fn, _tuple_elem(sites[0]))
            if r is not None:
                return (r[0], r[1] + list(reversed(chain)))
            return None
        if len(sites) == 1 and sites[0][-1] == () and sites[0][1].get("init") is not None:
            r = last_of(fn, sites[0][1]["init"])
            if r is not None:
                return (r[0], r[1] + list(reversed(chain)))
        return None
    if isinstance(n, Node) and n.k == "index":
        ix = strip(n["index"])
        b = up(strip(n["base"]))
        if ix.k == "binary" and ix["op"] == "-" and up(strip(ix["l"])) == b + ".len()" and up(strip(ix["r"])) == "1":
            return (origin(fn, n["base"]), list(reversed(chain)))
        ob = origin(fn, n["base"])
        if origin(fn, ix) == "(%s.len()-lit:1)" % ob:       # `let n = c.len(); c[n - 1]`
            return (ob, list(reversed(chain)))
    if isinstance(n, Node) and n.k == "mcall" and n["method"] == "last" and not n["args"]:
        return (origin(fn, n["recv"]), list(reversed(chain)))
    return None
