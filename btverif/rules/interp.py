"""Abstract interpreter for pure, comparison-only functions (R-PRED with inlined helpers, R-CASES).

Values are Python ints (ranks in a weak ordering), bools, tuples, or symbolic records (dicts).
Anything outside the supported fragment raises NotPure -> the rule refuses (fail closed)."""
from __future__ import annotations
import re
from ..astq import Node, up, strip, strip_cast


_LIMITS = {"u8::MAX": 255, "u16::MAX": 65535, "u32::MAX": 4294967295, "u64::MAX": 18446744073709551615, "i32::MAX": 2147483647, "i32::MIN": -2147483648,
           "usize::MAX": 18446744073709551615, "u8::MIN": 0, "u16::MIN": 0, "u32::MIN": 0, "u64::MIN": 0}


class NotPure(Exception):
    pass


class _Return(Exception):
    def __init__(self, v):
        self.v = v


class _Break(Exception):
    def __init__(self, v=None):
        self.v = v


class _Continue(Exception):
    pass


class Scope(dict):
    """lexical scope: reads fall through to the enclosing scope, assignments update the scope that declares the name"""
    def __init__(self, parent=None):
        super().__init__()
        self.parent = parent

    def __missing__(self, k):
        if self.parent is not None:
            return self.parent[k]
        raise KeyError(k)

    def __contains__(self, k):
        return dict.__contains__(self, k) or (self.parent is not None and k in self.parent)

    def get(self, k, d=None):
        return self[k] if k in self else d

    def assign(self, k, v):
        s = self
        while s is not None:
            if dict.__contains__(s, k):
                dict.__setitem__(s, k, v)
                return True
            s = getattr(s, "parent", None)
        return False


def _copyval(v):
    """values are moved / copied on binding: records must not alias (`self` and `&mut` borrows are passed by reference and never go through here)"""
    if isinstance(v, Node) or (isinstance(v, tuple) and len(v) == 3 and v[0] == "closure"):
        return v            # syntax and closures are values that are never mutated
    if isinstance(v, dict) and not v.get("__ref"):
        return {k: _copyval(x) for k, x in v.items()}
    if isinstance(v, tuple):
        return tuple(_copyval(x) for x in v)
    if isinstance(v, list):
        return [_copyval(x) for x in v]
    return v


class Interp:
    def __init__(self, ast, file_suffix, extern=None, max_depth=6, max_steps=200000):
        self.ast = ast
        self.file = file_suffix
        self.extern = extern or {}
        self.max_depth = max_depth
        self.max_steps = max_steps
        self.steps = 0

    def assign_place(self, lhs, v, env, depth):
        lhs = strip(lhs)
        if lhs.k == "unary" and lhs["op"] == "*":
            lhs = strip(lhs["e"])
        if lhs.k == "path":
            if isinstance(env, Scope):
                if not env.assign(lhs["path"], v):
                    raise NotPure("assignment to unknown name " + lhs["path"])
            elif lhs["path"] in env:
                env[lhs["path"]] = v
            else:
                raise NotPure("assignment to unknown name " + lhs["path"])
            return
        if lhs.k == "index":
            b = self.ev(lhs["base"], env, depth)
            i = self.ev(lhs["index"], env, depth)
            if isinstance(b, dict) and b.get("__arr") is not None:
                b["__arr"][i] = v
                return
            if isinstance(b, list) and isinstance(i, int) and 0 <= i < len(b):
                b[i] = v
                return
            raise NotPure("assignment to an index of a non-array: " + up(lhs))
        if lhs.k == "field":
            b = self.ev(lhs["base"], env, depth)
            if isinstance(b, dict) and lhs["member"] in b:
                b[lhs["member"]] = v
                return
            raise NotPure("assignment to a field of a non-record: " + up(lhs))
        raise NotPure("assignment to " + up(lhs))

    def call(self, fn, args, depth=0):
        if depth > self.max_depth:
            raise NotPure("inlining depth exceeded at %s" % fn.name)
        env = {}
        names = [p[0] for p in fn.params]
        if len(names) != len(args):
            raise NotPure("arity mismatch calling %s" % fn.name)
        for n, a in zip(names, args):
            if n is None:
                raise NotPure("destructured parameter in %s" % fn.name)
            env[n] = a
        try:
            return self.block(fn.body, env, depth)
        except _Return as r:
            return r.v

    def block(self, b, env, depth):
        env = Scope(env)
        last = None
        for st in b["stmts"]:
            last = None
            if st.k == "let":
                if st.get("init") is None:
                    raise NotPure("uninitialised let")
                v = self.ev(st["init"], env, depth)
                if st.get("else") is not None:
                    if not self.match_pat(st["pat"], _copyval(v), env):
                        self.block(st["else"], env, depth)
                        raise NotPure("let-else block fell through")
                else:
                    self.bind(st["pat"], _copyval(v), env)
            elif st.k == "expr_stmt":
                v = self.ev(st["e"], env, depth)
                if not st["semi"]:
                    last = v
            elif st.k == "item_stmt" and isinstance(st.get("item"), Node) and st["item"].k in ("use", "const"):
                continue        # `use std::cmp::Ordering;` inside a function body
            else:
                raise NotPure("statement kind " + st.k)
        return last

    def bind(self, pat, v, env):
        k = pat.k
        if k == "p_ident":
            env[pat["name"]] = v
        elif k == "p_tuple":
            if not isinstance(v, tuple) or len(v) != len(pat["elems"]):
                raise NotPure("tuple pattern mismatch")
            for p, x in zip(pat["elems"], v):
                self.bind(p, x, env)
        elif k == "p_type":
            self.bind(pat["pat"], v, env)
        elif k == "p_wild":
            pass
        elif k in ("p_struct", "p_ref"):
            if not self.match_pat(pat, v, env):
                raise NotPure("irrefutable pattern did not match")
        else:
            raise NotPure("pattern kind " + k)

    def match_pat(self, pat, v, env):
        k = pat.k
        if k == "p_wild":
            return True
        if k == "p_ident":
            if pat["name"] == "None" :
                return v is None
            env[pat["name"]] = v
            return True
        if k == "p_path":
            if isinstance(v, tuple) and len(v) == 3 and v[0] == "variant" and "::" in pat["path"]:
                return v[1] == pat["path"].split("::")[-1] and not v[2]        # `Name::None` is a variant of its own enum
            if pat["path"].split("::")[-1] == "None":
                return v is None
            if isinstance(v, tuple) and len(v) == 3 and v[0] == "variant":
                return v[1] == pat["path"].split("::")[-1] and not v[2]
            raise NotPure("path pattern " + pat["path"])
        if k == "p_tstruct":
            nm = pat["path"].split("::")[-1]
            if nm in ("Some", "Ok") and len(pat["elems"]) == 1:
                if isinstance(v, tuple) and len(v) == 2 and v[0] == "some":
                    return self.match_pat(pat["elems"][0], v[1], env)
                return False
            if nm == "Err" and len(pat["elems"]) == 1:
                if isinstance(v, tuple) and len(v) == 2 and v[0] == "err":
                    return self.match_pat(pat["elems"][0], v[1], env)
                return False
            if isinstance(v, tuple) and len(v) == 3 and v[0] == "variant":
                if v[1] != nm or len(v[2]) != len(pat["elems"]):
                    return False
                return all(self.match_pat(p, x, env) for p, x in zip(pat["elems"], v[2]))
            raise NotPure("tuple-struct pattern " + nm)
        if k == "p_tuple":
            if not isinstance(v, tuple) or len(v) != len(pat["elems"]):
                raise NotPure("tuple pattern mismatch")
            return all(self.match_pat(p, x, env) for p, x in zip(pat["elems"], v))
        if k in ("p_ref", "p_type"):
            return self.match_pat(pat["pat"], v, env)
        if k == "p_struct":
            # `Type { a, b: pat, .. }` against a record (the type name of a record is not checked: the program type-checks)
            if not isinstance(v, dict):
                raise NotPure("struct pattern against a non-record")
            for f in pat["fields"]:
                if f["name"] not in v:
                    raise NotPure("struct pattern field " + str(f["name"]))
                if not self.match_pat(f["pat"], v[f["name"]], env):
                    return False
            return True
        if k == "p_or":
            return any(self.match_pat(c, v, env) for c in pat["cases"])
        if k == "p_lit":
            return self.ev(pat["lit"], {}, 0) == v
        raise NotPure("pattern kind " + k)

    def apply_closure(self, c, args, depth=0):
        _, node, cenv = c
        env = Scope(cenv)
        if len(node["inputs"]) != len(args):
            raise NotPure("closure arity")
        for p, a in zip(node["inputs"], args):
            if not self.match_pat(p, a, env):
                raise NotPure("closure pattern")
        b = node["body"]
        try:
            return self.block(b, env, depth) if b.k == "block" else self.ev(b, env, depth)
        except _Return as r:
            return r.v          # `return` inside a closure leaves the closure

    def run_stmts(self, stmts, env, depth=0):
        """execute a statement list in place (env is mutated by lets)"""
        last = None
        for st in stmts:
            last = None
            if st.k == "let":
                v = _copyval(self.ev(st["init"], env, depth))
                if not self.match_pat(st["pat"], v, env):
                    if st.get("else") is not None:
                        self.block(st["else"], env, depth)
                    raise NotPure("let pattern")
            elif st.k == "expr_stmt":
                v = self.ev(st["e"], env, depth)
                if not st["semi"]:
                    last = v
            elif st.k == "item_stmt" and isinstance(st.get("item"), Node) and st["item"].k in ("use", "const"):
                continue
            else:
                raise NotPure("statement kind " + st.k)
        return last

    def ev(self, n, env, depth):
        self.steps += 1
        if self.steps > self.max_steps:
            raise NotPure("step budget exceeded")
        n = strip(n)
        k = n.k
        if k == "assign":
            self.assign_place(n["l"], _copyval(self.ev(n["r"], env, depth)), env, depth)
            return None
        if k == "mcall" and n["method"] in ("push_str", "push") and len(n["args"]) == 1 and strip(n["recv"]).k in ("field", "path"):
            cur = self.ev(n["recv"], env, depth)
            if isinstance(cur, str):
                a_ = self.ev(n["args"][0], env, depth)
                if isinstance(a_, str):
                    self.assign_place(n["recv"], cur + a_, env, depth)     # String::push_str / push on a local
                    return None
        if k == "mcall" and n["method"] in ("take", "replace") and strip(n["recv"]).k in ("field", "path") and len(n["args"]) == (0 if n["method"] == "take" else 1):
            old = self.ev(n["recv"], env, depth)
            if old is None or (isinstance(old, tuple) and len(old) == 2 and old[0] == "some"):
                new = None if n["method"] == "take" else ("some", _copyval(self.ev(n["args"][0], env, depth)))
                self.assign_place(n["recv"], new, env, depth)
                return old
        if k == "lit":
            if n["t"] == "int":
                return int(n["v"].replace("_", ""))
            if n["t"] == "bool":
                return bool(n["v"])
            if n["t"] == "float":
                return float(re.sub(r"_?f(32|64)$", "", str(n["v"]))) if self.extern.get("floats") else ("f", float(n["v"]))
            if n["t"] in ("str", "char"):
                return n["v"]
            raise NotPure("literal " + n["t"])
        if k == "path":
            p = n["path"]
            if p in env:
                return env[p]
            if p in self.extern:
                return self.extern[p]
            hook = self.extern.get("path")
            if hook is not None:
                return hook(p)
            if p in _LIMITS:
                return _LIMITS[p]
            cn = p.split("::")[-1]
            cands = [node for (f_, n_), node in getattr(self.ast, "consts", {}).items() if n_ == cn and f_.endswith(self.file) and isinstance(node.get("e"), Node)]
            if len(cands) == 1 and depth < self.max_depth:
                return self.ev(cands[0]["e"], {}, depth + 1)        # a `const` of this file (or of the function body)
            if "::" in p and p.split("::")[-1][:1].isupper():
                return ("variant", p.split("::")[-1], [])
            raise NotPure("free name " + p)
        if k == "unary":
            v = self.ev(n["e"], env, depth)
            if n["op"] == "!":
                return not v
            if n["op"] == "-":
                return -v
            if n["op"] == "*":
                return v
            raise NotPure("unary " + n["op"])
        if k == "cast":
            return self.ev(n["e"], env, depth)
        if k == "binary" and n["op"] in ("+=", "-=", "*=", "/="):
            hook = self.extern.get("binop")
            if hook is None:
                raise NotPure("arithmetic %s in comparison-only code" % n["op"])
            cur = self.ev(n["l"], env, depth)
            self.assign_place(n["l"], hook(n["op"][0], cur, self.ev(n["r"], env, depth)), env, depth)
            return None
        if k == "binary":
            op = n["op"]
            if op == "&&":
                return self.ev(n["l"], env, depth) and self.ev(n["r"], env, depth)
            if op == "||":
                return self.ev(n["l"], env, depth) or self.ev(n["r"], env, depth)
            a = self.ev(n["l"], env, depth)
            b = self.ev(n["r"], env, depth)
            if op in ("<", "<=", ">", ">=", "==", "!="):
                if isinstance(a, dict) or isinstance(b, dict):
                    raise NotPure("comparison of records")
                if op in ("==", "!="):
                    return (a == b) if op == "==" else (a != b)
                try:
                    return {"<": a < b, "<=": a <= b, ">": a > b, ">=": a >= b}[op]
                except TypeError:
                    raise NotPure("ordering of %s and %s" % (type(a).__name__, type(b).__name__))
            hook = self.extern.get("binop")
            if hook is not None:
                return hook(op, a, b)
            raise NotPure("arithmetic %s in comparison-only code" % op)
        if k == "if":
            c = strip(n["cond"])
            if c.k == "let_expr":
                v = self.ev(c["e"], env, depth)
                env2 = Scope(env)
                if self.match_pat(c["pat"], v, env2):
                    return self.block(n["then"], env2, depth)
                if n.get("else") is not None:
                    e = n["else"]
                    return self.block(e, env, depth) if e.k == "block" else self.ev(e, env, depth)
                return None
            if self.ev(c, env, depth):
                return self.block(n["then"], env, depth)
            if n.get("else") is not None:
                e = n["else"]
                return self.block(e, env, depth) if e.k == "block" else self.ev(e, env, depth)
            return None
        if k == "block":
            if n.get("label"):
                try:
                    return self.block(n, env, depth)
                except _Break as b:
                    return b.v
            return self.block(n, env, depth)
        if k == "return":
            raise _Return(self.ev(n["e"], env, depth) if n.get("e") is not None else None)
        if k == "break":
            raise _Break(self.ev(n["e"], env, depth) if n.get("e") is not None else None)
        if k == "continue":
            raise _Continue()
        if k == "try":
            v = self.ev(n["e"], env, depth)
            if isinstance(v, tuple) and len(v) == 2 and v[0] == "err":
                raise _Return(v)
            if isinstance(v, tuple) and len(v) == 2 and v[0] == "some":
                return v[1]
            if v is None:
                raise _Return(None)
            return v
        if k == "lit" and False:
            pass
        if k == "tuple":
            return tuple(self.ev(e, env, depth) for e in n["elems"])
        if k == "field":
            b = self.ev(n["base"], env, depth)
            if isinstance(b, dict):
                if n["member"] not in b:
                    raise NotPure("unknown field " + n["member"])
                return b[n["member"]]
            if isinstance(b, tuple) and n["member"].isdigit():
                return b[int(n["member"])]
            raise NotPure("field of non-record")
        if k == "struct":
            d = {"__type": n["path"].split("::")[-1]}
            for f in n["fields"]:
                d[f["name"]] = self.ev(f["e"], env, depth)
            if n.get("rest") is not None:
                base = self.ev(n["rest"], env, depth)
                for kk, vv in base.items():
                    d.setdefault(kk, vv)
            return d
        if k == "call":
            f = n["func"]
            if isinstance(f, Node) and f.k == "path":
                name = f["path"].split("::")[-1]
                args = [self.ev(a, env, depth) for a in n["args"]]
                if name in ("min", "max") and len(args) == 2:
                    return min(args) if name == "min" else max(args)
                if name in ("Some", "Ok", "Box::new"):
                    return ("some", args[0])
                if name == "Err":
                    return ("err", args[0])
                if name in self.extern and callable(self.extern[name]):
                    return self.extern[name](*args)
                if name in ("from",) and len(args) == 1:
                    return args[0]
                if "::" not in f["path"] and f["path"] in env:
                    fv = env[f["path"]]
                    if isinstance(fv, tuple) and len(fv) == 3 and fv[0] == "closure":
                        return self.apply_closure(fv, args, depth)          # a local closure called by its name
                    if callable(fv):
                        return fv(*args)
                try:
                    target = self.ast.fn(self.file, name, required=False)
                except Exception:
                    target = None
                if target is None or ("::" in f["path"] and name[:1].isupper()):
                    hook = self.extern.get("call")
                    if hook is not None:
                        r = hook(f["path"], args)
                        if r is not NotImplemented:
                            return r
                    if "::" in f["path"] and name[:1].isupper():
                        return ("variant", name, args)
                    if target is None:
                        raise NotPure("call to unknown function " + up(f))
                return self.call(target, args, depth + 1)
            fv = self.ev(f, env, depth)
            args = [self.ev(a, env, depth) for a in n["args"]]
            if callable(fv):
                return fv(*args)
            if isinstance(fv, tuple) and len(fv) == 3 and fv[0] == "closure":
                return self.apply_closure(fv, args, depth)
            raise NotPure("indirect call")
        if k == "mcall":
            m = n["method"]
            recv = self.ev(n["recv"], env, depth)
            args = [self.ev(a, env, depth) for a in n["args"]]
            if m in ("min", "max") and len(args) == 1:
                a_, b_ = recv, args[0]
                if isinstance(a_, float) and a_ != a_:
                    return b_          # f64::min / f64::max ignore a NaN operand
                if isinstance(b_, float) and b_ != b_:
                    return a_
                return min(a_, b_) if m == "min" else max(a_, b_)
            if m == "clamp" and len(args) == 2 and all(isinstance(x, int) and not isinstance(x, bool) for x in [recv] + args):
                return min(max(recv, args[0]), args[1])
            if m in ("clone", "to_owned", "into", "copied") and not args:
                return recv
            if m == "map" and len(args) == 1 and isinstance(args[0], tuple) and args[0][0] == "closure" and (recv is None or (isinstance(recv, tuple) and recv[0] == "some")):
                return None if recv is None else ("some", self.apply_closure(args[0], [recv[1]], depth))
            is_opt = recv is None or (isinstance(recv, tuple) and len(recv) == 2 and recv[0] == "some")
            is_err = isinstance(recv, tuple) and len(recv) == 2 and recv[0] == "err"
            if is_err and m in ("map", "and_then", "inspect") and len(args) == 1:
                return recv                  # Result::map / and_then leave an Err untouched
            if is_err and m == "map_or" and len(args) == 2:
                return args[0]
            if is_err and m in ("is_ok", "is_err") and not args:
                return m == "is_err"
            if is_opt and recv is not None and m in ("is_ok", "is_err") and not args:
                return m == "is_ok"
            if is_err and m == "map_err" and len(args) == 1 and isinstance(args[0], tuple) and args[0][0] == "closure":
                return ("err", self.apply_closure(args[0], [recv[1]], depth))
            if is_opt and recv is not None and m == "map_err" and len(args) == 1:
                return recv
            if (is_opt or is_err) and m == "ok" and not args:
                return None if is_err else recv
            if is_opt and m == "and_then" and len(args) == 1 and isinstance(args[0], tuple) and args[0][0] == "closure":
                return None if recv is None else self.apply_closure(args[0], [recv[1]], depth)
            if is_opt and m in ("ok_or", "ok_or_else") and len(args) == 1:
                if recv is not None:
                    return recv
                return ("err", self.apply_closure(args[0], [], depth) if m == "ok_or_else" and isinstance(args[0], tuple) and args[0][0] == "closure" else args[0])
            if (is_opt or is_err) and m == "unwrap_or_else" and len(args) == 1 and isinstance(args[0], tuple) and args[0][0] == "closure":
                if is_opt and recv is not None:
                    return recv[1]
                return self.apply_closure(args[0], [recv[1]] if is_err else [], depth)
            if m == "map_or" and len(args) == 2 and isinstance(args[1], tuple) and args[1][0] == "closure" and (recv is None or (isinstance(recv, tuple) and recv[0] == "some")):
                return args[0] if recv is None else self.apply_closure(args[1], [recv[1]], depth)
            if m in ("is_some_and", "is_none_or") and len(args) == 1 and isinstance(args[0], tuple) and args[0][0] == "closure" and (recv is None or (isinstance(recv, tuple) and recv[0] == "some")):
                return (m == "is_none_or") if recv is None else bool(self.apply_closure(args[0], [recv[1]], depth))
            if m in ("is_lt", "is_gt", "is_le", "is_ge", "is_eq", "is_ne") and not args and isinstance(recv, tuple) and len(recv) == 3 and recv[0] == "variant" and recv[1] in ("Less", "Equal", "Greater"):
                r_ = {"Less": -1, "Equal": 0, "Greater": 1}[recv[1]]
                return {"is_lt": r_ < 0, "is_gt": r_ > 0, "is_le": r_ <= 0, "is_ge": r_ >= 0, "is_eq": r_ == 0, "is_ne": r_ != 0}[m]
            if m in ("cmp", "partial_cmp") and len(args) == 1 and type(recv) == type(args[0]) and isinstance(recv, (int, tuple, str)) and not isinstance(recv, bool):
                r_ = (recv > args[0]) - (recv < args[0])
                v_ = ("variant", {-1: "Less", 0: "Equal", 1: "Greater"}[r_], [])
                return v_ if m == "cmp" else ("some", v_)
            if m in ("then", "then_with") and len(args) == 1 and isinstance(recv, tuple) and len(recv) == 3 and recv[0] == "variant" and recv[1] in ("Less", "Equal", "Greater"):
                if recv[1] != "Equal":
                    return recv
                return args[0] if m == "then" else self.apply_closure(args[0], [], depth)
            if m == "unwrap_or" and len(args) == 1 and (recv is None or (isinstance(recv, tuple) and recv[0] == "some")):
                return args[0] if recv is None else recv[1]
            if m == "unwrap" and not args and isinstance(recv, tuple) and recv[0] == "some":
                return recv[1]
            if m in ("is_some", "is_none") and not args and (recv is None or (isinstance(recv, tuple) and recv[0] == "some")):
                return (recv is not None) == (m == "is_some")
            hook = self.extern.get("method")
            if hook is not None:
                return hook(m, recv, args)
            raise NotPure("method " + m)
        if k == "match":
            v = self.ev(n["scrut"], env, depth)
            for arm in n["arms"]:
                env2 = Scope(env)
                if self.match_pat(arm["pat"], v, env2):
                    if arm.get("guard") is not None and not self.ev(arm["guard"], env2, depth):
                        continue
                    b = arm["body"]
                    return self.block(b, env2, depth) if b.k == "block" else self.ev(b, env2, depth)
            raise NotPure("no match arm applies")
        if k == "loop":
            while True:
                try:
                    self.block(n["body"], env, depth)
                except _Break as b:
                    return b.v
                except _Continue:
                    pass
                self.steps += 1
                if self.steps > self.max_steps:
                    raise NotPure("step budget exceeded")
        if k == "for":
            itv = self.ev(n["iter"], env, depth)
            if isinstance(itv, tuple) and len(itv) == 3 and itv[0] == "range" and isinstance(itv[1], int) and isinstance(itv[2], int):
                itv = list(range(itv[1], itv[2]))
            if isinstance(itv, dict) and "items" in itv and "pos" in itv:
                seq = itv["items"][itv["pos"]:]
                itv["pos"] = len(itv["items"])
                itv = seq
            if not isinstance(itv, list) and self.extern.get("iterate") is not None:
                itv = self.extern["iterate"](itv)
            if not isinstance(itv, list):
                raise NotPure("for over a non-list")
            for x in list(itv):
                env2 = Scope(env)
                if not self.match_pat(n["pat"], x, env2):
                    raise NotPure("for pattern")
                try:
                    self.block(n["body"], env2, depth)
                except _Break:
                    break
                except _Continue:
                    continue
            return None
        if k == "while" and strip(n["cond"]).k == "let_expr":
            c = strip(n["cond"])
            while True:
                v = self.ev(c["e"], env, depth)
                env2 = Scope(env)
                if not self.match_pat(c["pat"], v, env2):
                    return None
                try:
                    self.block(n["body"], env2, depth)
                except _Break:
                    return None
                except _Continue:
                    pass
                self.steps += 1
                if self.steps > self.max_steps:
                    raise NotPure("step budget exceeded")
        if k == "while" and strip(n["cond"]).k != "let_expr":
            while self.ev(n["cond"], env, depth):
                try:
                    self.block(n["body"], env, depth)
                except _Break:
                    break
                except _Continue:
                    pass
            return None
        if k == "range":
            lo = self.ev(n["from"], env, depth) if n.get("from") is not None else None
            hi = self.ev(n["to"], env, depth) if n.get("to") is not None else None
            if n.get("inclusive") and isinstance(hi, int):
                hi += 1
            return ("range", lo, hi)
        if k == "index":
            b = self.ev(n["base"], env, depth)
            i = self.ev(n["index"], env, depth)
            if isinstance(b, dict) and b.get("__arr") is not None:
                if i in b["__arr"]:
                    return b["__arr"][i]
                raise NotPure("read of an unwritten array slot")
            if isinstance(b, (list, tuple)) and isinstance(i, int) and not isinstance(i, bool) and 0 <= i < len(b):
                return b[i]
            if isinstance(b, list) and isinstance(i, tuple) and len(i) == 3 and i[0] == "range":
                lo = 0 if i[1] is None else i[1]
                hi = len(b) if i[2] is None else i[2]
                if isinstance(lo, int) and isinstance(hi, int) and 0 <= lo <= hi <= len(b):
                    return b[lo:hi]
            raise NotPure("index expression " + up(n)[:60])
        if k == "closure":
            return ("closure", n, env)
        if k == "ref":
            return self.ev(n["e"], env, depth)
        if k == "macro":
            if n["path"] in ("debug_assert", "debug_assert_eq", "debug_assert_ne"):
                return None
            if n["path"] == "matches" and isinstance(n.get("args"), list) and len(n["args"]) == 2:
                # matches!(e, A | B | ..) over literals and unit variants (no guard): the alternatives parse as a `|` chain
                v = self.ev(n["args"][0], env, depth)
                leaves, todo = [], [n["args"][1]]
                while todo:
                    x = todo.pop()
                    if isinstance(x, Node) and x.k == "binary" and x["op"] == "|":
                        todo += [x["r"], x["l"]]
                    elif isinstance(x, Node) and x.k == "paren":
                        todo.append(x["e"])
                    else:
                        leaves.append(x)
                for x in leaves:
                    if isinstance(x, Node) and x.k == "lit":
                        if self.ev(x, env, depth) == v:
                            return True
                    elif isinstance(x, Node) and x.k == "path" and "::" in x["path"] and x["path"].split("::")[-1][:1].isupper():
                        nm = x["path"].split("::")[-1]
                        if (nm == "None" and v is None) or (isinstance(v, tuple) and len(v) == 3 and v[0] == "variant" and v[1] == nm and not v[2]):
                            return True
                    else:
                        raise NotPure("matches! alternative " + up(x)[:40])
                return False
            hook = self.extern.get("macro")
            if hook is not None:
                if "repeat" in n and isinstance(n["repeat"], dict):
                    # vec![e; len]: the hook receives [value of e, value of len]
                    return hook(n, [self.ev(n["repeat"]["e"], env, depth), self.ev(n["repeat"]["len"], env, depth)])
                return hook(n, [self.ev(a, env, depth) for a in n.get("args", [])] if "args" in n else None)
            raise NotPure("macro " + n["path"])
        raise NotPure("expression kind " + k)
