"""R-EQUIV: decide whether a pure integer / boolean source expression denotes the required function of its leaves.

The expression is first normalised (astq._tnorm: single-assignment pure lets and private one-expression helpers are inlined, so
temporaries and extracted helpers do not matter), its leaves (local names, field chains, constants) are mapped onto roles by the
caller, and both the expression and the reference (a Python function of the roles, written from the property text) are evaluated on
every assignment of a small domain to the roles.  The expressions this is used for are built from + - * / min max saturating_* and
comparisons over a handful of leaves: piecewise-linear with few pieces, for which agreement on the grid leaves no room for
disagreement elsewhere short of magic constants (literals other than 0/1/2 appearing in the expression are reported as `unknown`).

Outcomes: ("equal", n) | ("differs", env, got, want) | ("unknown", reason).  `unknown` means the expression is outside the evaluable
fragment or mentions a leaf the caller did not give a role: callers record the clause as undecided, never as a violation."""
from __future__ import annotations
import re, itertools
from ..astq import Node, up, strip, _tnorm


class Unknown(Exception):
    pass


def leaf_text(n):
    """text of a place expression made of paths, field accesses and derefs only, else None"""
    n0 = n
    while isinstance(n, Node) and n.k in ("field", "paren", "ref") or (isinstance(n, Node) and n.k == "unary" and n["op"] == "*"):
        n = n["base"] if n.k == "field" else n["e"]
    if isinstance(n, Node) and n.k == "path":
        t = up(n0)
        return t.lstrip("*&").replace("(", "").replace(")", "")
    return None


def leaves(n, out=None):
    out = set() if out is None else out
    if isinstance(n, list):
        for x in n:
            leaves(x, out)
        return out
    if not isinstance(n, Node):
        return out
    if n.k in ("path", "field") or (n.k == "unary" and n["op"] == "*"):
        t = leaf_text(n)
        if t is not None:
            out.add(t)
            return out
    if n.k == "call":
        leaves(n["args"], out)
        return out
    if n.k == "cast":
        leaves(n["e"], out)
        return out
    for key, v in n.items():
        if key in ("ty", "sp", "k", "method", "op"):
            continue
        if isinstance(v, (Node, list)):
            leaves(v, out)
    return out


def _int_lit(n):
    s = str(n["v"]).replace("_", "")
    m = re.match(r"-?\d+", s)
    if not m:
        raise Unknown("literal " + s)
    return int(m.group(0))


def ev(n, env, small_lits=True):
    n = strip(n)
    k = n.k
    if k == "lit":
        if n["t"] == "int":
            v = _int_lit(n)
            if small_lits and abs(v) > 2:
                raise Unknown("literal %d (only 0, 1, 2 are neutral on a small domain)" % v)
            return v
        if n["t"] == "bool":
            return bool(n["v"]) if not isinstance(n["v"], str) else n["v"] == "true"
        if n["t"] == "float" and float(n["v"]) == 0.0:
            return 0
        raise Unknown("literal " + str(n["v"]))
    if k in ("path", "field") or (k == "unary" and n["op"] == "*"):
        t = leaf_text(n)
        if t is not None:
            if t in env:
                return env[t]
            raise Unknown("leaf `%s` has no role" % t)
    if k == "cast" or k == "paren" or k == "ref":
        return ev(n["e"], env, small_lits)
    if k == "unary":
        v = ev(n["e"], env, small_lits)
        if n["op"] == "!":
            return not v
        if n["op"] == "-":
            return -v
        raise Unknown("unary " + n["op"])
    if k == "binary":
        op = n["op"]
        if op == "&&":
            return bool(ev(n["l"], env, small_lits)) and bool(ev(n["r"], env, small_lits))
        if op == "||":
            return bool(ev(n["l"], env, small_lits)) or bool(ev(n["r"], env, small_lits))
        a, b = ev(n["l"], env, small_lits), ev(n["r"], env, small_lits)
        if op in ("<", "<=", ">", ">=", "==", "!="):
            return {"<": a < b, "<=": a <= b, ">": a > b, ">=": a >= b, "==": a == b, "!=": a != b}[op]
        if isinstance(a, bool) or isinstance(b, bool):
            raise Unknown("arithmetic on a boolean")
        if op == "+":
            return a + b
        if op == "-":
            return a - b
        if op == "*":
            return a * b
        if op in ("/", "%"):
            if b == 0:
                return ("div0",)
            q = abs(a) // abs(b)
            q = q if (a >= 0) == (b >= 0) else -q
            return q if op == "/" else a - q * b
        raise Unknown("operator " + op)
    if k == "mcall":
        m = n["method"]
        r = ev(n["recv"], env, small_lits)
        args = [ev(a, env, small_lits) for a in n["args"]]
        if m in ("min", "max") and len(args) == 1:
            return min(r, args[0]) if m == "min" else max(r, args[0])
        if m in ("saturating_add", "wrapping_add") and len(args) == 1:
            return r + args[0]          # no saturation on the small domain
        if m == "saturating_mul" and len(args) == 1:
            return r * args[0]
        if m == "saturating_sub" and len(args) == 1:
            return max(0, r - args[0])
        if m == "abs_diff" and len(args) == 1:
            return abs(r - args[0])
        if m == "clamp" and len(args) == 2:
            return min(max(r, args[0]), args[1])
        if m in ("clone", "into", "to_owned") and not args:
            return r
        raise Unknown("method " + m)
    if k == "call" and isinstance(n["func"], Node) and n["func"].k == "path":
        f = n["func"]["path"].split("::")[-1]
        args = [ev(a, env, small_lits) for a in n["args"]]
        if f in ("min", "max") and len(args) == 2:
            return min(args) if f == "min" else max(args)
        if f in ("from", "try_from") and len(args) == 1:
            return args[0]
        raise Unknown("call of " + up(n["func"]))
    if k == "if" and n.get("else") is not None and strip(n["cond"]).k != "let_expr":
        def blk(b):
            b = strip(b)
            if b.k == "block":
                if len(b["stmts"]) != 1 or b["stmts"][0].k != "expr_stmt" or b["stmts"][0]["semi"]:
                    raise Unknown("block with statements")
                return ev(b["stmts"][0]["e"], env, small_lits)
            return ev(b, env, small_lits)
        return blk(n["then"]) if ev(n["cond"], env, small_lits) else blk(n["else"])
    raise Unknown("expression kind %s: %s" % (k, up(n)[:60]))


def equiv(fn, node, roles, ref, domain=range(0, 4), pre=None, consts=None, any_literals=False):
    """roles: {role: regex over leaf text}; every leaf of the normalised expression must match exactly one role and all leaves of a role must be
    the same text.  ref(e) gets e[role] for every role.  pre(e) restricts the domain (the context's invariants)."""
    nf = _tnorm(fn, strip(node) if isinstance(node, Node) else node)
    bound = {}
    for t in sorted(leaves(nf)):
        if consts and t in consts:
            continue
        hit = [r for r, rx in roles.items() if re.fullmatch(rx, t)]
        if len(hit) != 1:
            return ("unknown", "leaf `%s` of `%s` %s" % (t, up(nf)[:120], "has no role" if not hit else "is ambiguous (%s)" % hit))
        if hit[0] in bound and bound[hit[0]] != t:
            return ("unknown", "two leaves (`%s`, `%s`) for role %s" % (bound[hit[0]], t, hit[0]))
        bound[hit[0]] = t
    names = sorted(roles)
    n = 0
    for vals in itertools.product(domain, repeat=len(names)):
        e = dict(zip(names, vals))
        if pre is not None and not pre(e):
            continue
        env = {bound[r]: v for r, v in e.items() if r in bound}
        if consts:
            env.update(consts)
        try:
            got = ev(nf, env, small_lits=not any_literals)
        except Unknown as x:
            return ("unknown", "%s in `%s`" % (x, up(nf)[:120]))
        want = ref(e)
        n += 1
        if got != want or isinstance(got, bool) != isinstance(want, bool):
            return ("differs", e, got, want)
    if n == 0:
        return ("unknown", "empty domain")
    return ("equal", n)


def require(res, role, site, fn, node, roles, ref, what, **kw):
    """record the outcome of equiv on `res`: fail with a witness, undecided when not evaluable; True iff equal"""
    r = equiv(fn, node, roles, ref, **kw)
    if r[0] == "equal":
        return True
    if r[0] == "differs":
        res.fail(role, site, "%s: `%s` gives %s, required %s, for %s" % (what, up(strip(node))[:100], r[2], r[3], ", ".join("%s=%s" % kv for kv in sorted(r[1].items()))))
        return False
    res.undecided(role, site, "%s: not decided (%s)" % (what, r[1]))
    return None
