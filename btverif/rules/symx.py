"""R-SYMX: symbolic execution of a straight-line statement list.

Produces, for a block without internal control flow (other than guarded exits), the ordered list of its effects and the final value of
every assigned place, both expressed over the places' values at block entry and over fresh symbols `$1, $2, ..` standing for the
results of effectful expressions.  Temporaries, statement order between independent pure computations, tuple assignments and
`let x = ..; y = x;` chains all disappear in this form, so rules can state "the file is positioned at E, one line is read, the
position P is taken, (start, P) is pushed, and afterwards start == P" without prescribing how the code spells it.

  run(fn, stmts) -> Sym  with  .effects: [(kind, text, node)]   kind in effect | exit | opaque
                               .env:     {place text: Node}      (values after the block)
                               .value:   Node or None            (tail expression)
A statement the executor does not understand becomes an `opaque` effect; callers treat any opaque effect as "not decided"."""
from __future__ import annotations
from ..astq import Node, up, strip, walk_no_nested_fn, pure_expr, _mknode, _copy_tree, _place_text


class Sym:
    def __init__(self):
        self.effects = []
        self.env = {}
        self.value = None
        self.n = 0

    def fresh(self):
        self.n += 1
        return _mknode({"k": "path", "path": "$%d" % self.n})

    def opaque(self):
        return [e for e in self.effects if e[0] == "opaque"]

    def show(self):
        return [("%s: %s" % (k, t)) for k, t, _ in self.effects]


def subst(n, env):
    if isinstance(n, list):
        return [subst(x, env) for x in n]
    if not isinstance(n, Node):
        return n
    if n.k in ("path", "field") or (n.k == "unary" and n["op"] == "*"):
        t = _place_text(n)
        if t is not None and t in env:
            return env[t]
    if n.k == "paren":
        return subst(n["e"], env)
    out = _mknode({})
    for key, v in n.items():
        if isinstance(v, (Node, list)):
            out[key] = subst(v, env)
        elif isinstance(v, dict):
            out[key] = {kk: subst(vv, env) for kk, vv in v.items()}
        else:
            out[key] = v
    return out


def _is_exit_block(b):
    b = strip(b)
    if b.k != "block" or len(b["stmts"]) != 1 or b["stmts"][0].k != "expr_stmt":
        return None
    e = strip(b["stmts"][0]["e"])
    return e if e.k in ("break", "return", "continue") else None


def _eval(sym, e, fn):
    """value node of expression e under sym.env; effectful expressions are recorded and replaced by a fresh symbol"""
    v = subst(e, sym.env)
    if pure_expr(v, None):
        return v
    s = sym.fresh()
    sym.effects.append(("effect", "%s = %s" % (s["path"], up(v)), v))
    return s


def run(fn, stmts, env=None):
    sym = Sym()
    if env:
        sym.env.update(env)
    last = len(stmts) - 1
    for i, st in enumerate(stmts):
        if st.k == "let":
            if st.get("init") is None or st.get("else") is not None:
                sym.effects.append(("opaque", up(st)[:120], st))
                continue
            init = strip(st["init"])
            pat = st["pat"]
            while pat.k == "p_type":
                pat = pat["pat"]
            if pat.k == "p_ident" and pat.get("sub") is None:
                sym.env[pat["name"]] = _eval(sym, init, fn)
            elif pat.k == "p_tuple" and init.k == "tuple" and len(init["elems"]) == len(pat["elems"]) and all(p.k == "p_ident" for p in pat["elems"]):
                vals = [_eval(sym, x, fn) for x in init["elems"]]
                for p, v in zip(pat["elems"], vals):
                    sym.env[p["name"]] = v
            elif pat.k == "p_wild":
                _eval(sym, init, fn)
            else:
                sym.effects.append(("opaque", up(st)[:120], st))
            continue
        if st.k != "expr_stmt":
            sym.effects.append(("opaque", up(st)[:120], st))
            continue
        e = strip(st["e"])
        if e.k == "assign":
            l, r = strip(e["l"]), strip(e["r"])
            if l.k == "tuple" and r.k == "tuple" and len(l["elems"]) == len(r["elems"]) and all(_place_text(x) for x in l["elems"]):
                vals = [_eval(sym, x, fn) for x in r["elems"]]
                for x, v in zip(l["elems"], vals):
                    sym.env[_place_text(x)] = v
                continue
            t = _place_text(l)
            if t is None or "[" in up(l):
                sym.effects.append(("opaque", up(st)[:120], st))
                continue
            sym.env[t] = _eval(sym, r, fn)
            continue
        if e.k == "binary" and e["op"] in ("+=", "-=", "*="):
            t = _place_text(e["l"])
            if t is None or "[" in up(e["l"]):
                sym.effects.append(("opaque", up(st)[:120], st))
                continue
            cur = subst(e["l"], sym.env)
            sym.env[t] = _mknode({"k": "binary", "op": e["op"][0], "l": cur, "r": _eval(sym, e["r"], fn)})
            continue
        if e.k == "if" and e.get("else") is None and strip(e["cond"]).k != "let_expr":
            x = _is_exit_block(e["then"])
            if x is not None:
                c = subst(e["cond"], sym.env)
                sym.effects.append(("exit", "%s if %s" % (x.k, up(c)), c))
                continue
        if e.k in ("break", "return", "continue"):
            sym.effects.append(("exit", e.k, None))
            continue
        if e.k in ("if", "match", "loop", "while", "for", "block"):
            if i == last and not st.get("semi"):
                sym.value = subst(e, sym.env)
                sym.effects.append(("opaque", "tail " + up(e)[:100], e)) if e.k in ("loop", "while", "for") else None
            else:
                sym.effects.append(("opaque", up(st)[:120], st))
            continue
        v = subst(e, sym.env)
        if i == last and not st.get("semi"):
            sym.value = v if pure_expr(v, None) else _eval(sym, e, fn)
        elif not pure_expr(v, None):
            sym.effects.append(("effect", up(v), v))
    return sym
