"""AST fact base: load bt-ast JSON, index functions, canonical unparse, walkers,
light def-use resolution and structured-control-flow dominance.

Everything here works on the *current* source of /repo: facts are regenerated
by `facts.build_ast()` on every run.
"""
from __future__ import annotations
import json, os, subprocess, sys, hashlib, re

CHILD_KEYS_SKIP = {"sp", "msp"}


class Node(dict):
    """dict with attribute access + parent pointer (set by index())."""
    __slots__ = ("parent", "pkey", "fn", "file", "order")

    def __getattr__(self, k):
        try:
            return self[k]
        except KeyError:
            raise AttributeError(k)

    def __hash__(self):
        return id(self)

    def __eq__(self, o):
        return self is o


def _hook(d):
    if "k" in d:
        n = Node(d)
        n.parent = None
        n.pkey = None
        n.fn = None
        n.file = None
        n.order = -1
        return n
    return d


EVAL_ORDER = {
    "call": ["func", "args"], "mcall": ["recv", "args"], "binary": ["l", "r"], "assign": ["r", "l"],
    "if": ["cond", "then", "else"], "match": ["scrut", "arms"], "arm": ["pat", "guard", "body"],
    "while": ["cond", "body"], "for": ["iter", "pat", "body"], "let": ["init", "pat", "else"],
    "let_expr": ["e", "pat"], "index": ["base", "index"], "struct": ["fields", "rest"],
    "closure": ["inputs", "body"], "range": ["from", "to"], "repeat": ["e", "len"], "macro": ["args", "repeat"],
}


def children(n):
    """direct child Nodes in evaluation order (serde_json sorts keys, so the order is fixed per kind here)."""
    out = []
    order = EVAL_ORDER.get(n.get("k"))
    if order is not None:
        keys = [k for k in order if k in n] + [k for k in n if k not in order]
    else:
        keys = list(n.keys())
    for key in keys:
        if key in CHILD_KEYS_SKIP:
            continue
        _collect(n[key], key, out)
    return out


def _collect(v, key, out):
    if isinstance(v, Node):
        out.append((key, v))
    elif isinstance(v, list):
        for x in v:
            _collect(x, key, out)
    elif isinstance(v, dict):
        for kk, x in v.items():
            if kk in CHILD_KEYS_SKIP:
                continue
            _collect(x, key + "." + kk, out)


def walk(n):
    """pre-order over Nodes including n."""
    stack = [n]
    while stack:
        x = stack.pop()
        yield x
        ch = [c for _, c in children(x)]
        stack.extend(reversed(ch))


def walk_no_nested_fn(n):
    """pre-order, not descending into nested fn items (closures are descended)."""
    stack = [n]
    first = True
    while stack:
        x = stack.pop()
        if not first and x.k == "fn":
            continue
        first = False
        yield x
        ch = [c for _, c in children(x)]
        stack.extend(reversed(ch))


class Fn:
    def __init__(self, node, file, container, qual):
        self.node = node
        self.file = file
        self.container = container  # tuple of ("mod"|"impl"|"fn"|"trait", name)
        self.name = node["name"]
        self.qual = qual
        self.params = []  # list of (name or None, ty)
        for inp in node["sig"]["inputs"]:
            if inp.get("self"):
                self.params.append(("self", inp["t"]))
            else:
                p = inp["pat"]
                nm = p.get("name") if p.get("k") == "p_ident" else None
                self.params.append((nm, inp["ty"]))
        self.is_test = False

    @property
    def body(self):
        return self.node.get("body")

    def loc(self):
        return "%s:%d" % (self.file, self.node["sp"][0])

    def __repr__(self):
        return "<Fn %s>" % self.qual


class AstBase:
    def __init__(self, doc):
        global CURRENT_AST
        CURRENT_AST = self
        self.doc = doc
        self.files = {}
        self.fns = []  # all Fn
        self.by_qual = {}
        self.structs = {}  # (file,name) -> node
        self.consts = {}
        self.sources = {}
        self.root = doc["root"]
        self.parse_errors = []
        self._inl = {}
        for f in doc["files"]:
            if "parse_error" in f:
                self.parse_errors.append((f["file"], f["parse_error"]))
                continue
            self.files[f["file"]] = f
            self._index_items(f["items"], f["file"], (), False)
        # evaluation order + parents
        for fn in self.fns:
            self._annotate(fn)

    # ---- indexing
    def _index_items(self, items, file, container, in_test):
        for it in items:
            if not isinstance(it, Node):
                continue
            k = it.k
            test_here = in_test or any("cfg(test)" in a for a in it.get("attrs", []))
            if k == "fn":
                self._add_fn(it, file, container, test_here)
            elif k == "mod":
                if it.get("items") is not None:
                    self._index_items(it["items"], file, container + (("mod", it["name"]),), test_here)
            elif k == "impl":
                tr = it.get("trait")
                name = it["self_ty"] if not tr else "%s as %s" % (it["self_ty"], tr)
                self._index_items(it["items"], file, container + (("impl", name),), test_here)
            elif k == "trait":
                self._index_items(it["items"], file, container + (("trait", it["name"]),), test_here)
            elif k == "struct_def":
                self.structs[(file, it["name"])] = it
                it.file = file
            elif k == "enum_def":
                self.structs[(file, it["name"])] = it
                it.file = file
            elif k == "const":
                self.consts[(file, it["name"])] = it
                it.file = file

    def _add_fn(self, it, file, container, in_test):
        qual = file + "::" + "::".join(
            [("<%s>" % n if kind == "impl" else n) for kind, n in container] + [it["name"]]
        )
        fn = Fn(it, file, container, qual)
        fn.is_test = in_test or any(a.startswith("#[test") or "#[tokio::test" in a for a in it.get("attrs", []))
        self.fns.append(fn)
        self.by_qual.setdefault(qual, []).append(fn)
        # nested fn items inside the body
        body = it.get("body")
        if body is not None:
            for n in walk(body):
                if n.k == "item_stmt":
                    inner = n["item"]
                    if isinstance(inner, Node):
                        if inner.k == "fn":
                            self._add_fn(inner, file, container + (("fn", it["name"]),), fn.is_test)
                        elif inner.k == "const":
                            self.consts[(file, inner["name"])] = inner
                            inner.file = file

    def _annotate(self, fn):
        body = fn.body
        if body is None:
            return
        counter = [0]

        def rec(n, parent, pkey):
            n.parent = parent
            n.pkey = pkey
            n.fn = fn
            n.file = fn.file
            n.order = counter[0]
            counter[0] += 1
            if n.k == "fn" and n is not fn.node:
                return
            for key, c in children(n):
                rec(c, n, key)

        fn.node.parent = None
        fn.node.fn = fn
        fn.node.file = fn.file
        rec(body, fn.node, "body")

    # ---- lookup
    def fn(self, file_suffix, name, impl=None, required=True, inline=False, keep=()):
        """Find exactly one non-test fn by file suffix, name, optional impl
        container substring.  inline=True: the view with same-file helpers inlined (see inline_helpers)."""
        if inline:
            f = self.fn(file_suffix, name, impl, required)
            if f is None:
                return None
            key = (f.qual, tuple(keep))
            if key not in self._inl:
                self._inl[key] = inline_helpers(self, f, keep=keep)
            return self._inl[key]
        cands = []
        for f in self.fns:
            if f.name != name or not f.file.endswith(file_suffix) or f.is_test:
                continue
            if impl is not None:
                ok = any(kind in ("impl", "trait", "fn", "mod") and impl in n for kind, n in f.container)
                if not ok:
                    continue
            cands.append(f)
        if len(cands) == 1:
            return cands[0]
        if not cands:
            if required:
                raise AnchorMissing("fn %s in %s%s not found" % (name, file_suffix, " (impl %s)" % impl if impl else ""))
            return None
        raise AnchorMissing("fn %s in %s ambiguous: %s" % (name, file_suffix, [c.qual for c in cands]))

    def fns_in(self, file_suffix, include_tests=False):
        return [f for f in self.fns if f.file.endswith(file_suffix) and (include_tests or not f.is_test)]

    def struct(self, file_suffix, name):
        for (f, n), node in self.structs.items():
            if n == name and f.endswith(file_suffix):
                return node
        raise AnchorMissing("struct %s in %s not found" % (name, file_suffix))

    def const(self, file_suffix, name):
        for (f, n), node in self.consts.items():
            if n == name and f.endswith(file_suffix):
                return node
        raise AnchorMissing("const %s in %s not found" % (name, file_suffix))

    def source_line(self, file, line):
        if file not in self.sources:
            try:
                with open(os.path.join(self.root, file)) as fh:
                    self.sources[file] = fh.read().split("\n")
            except OSError:
                self.sources[file] = []
        ls = self.sources[file]
        return ls[line - 1].strip() if 0 < line <= len(ls) else ""


class AnchorMissing(Exception):
    pass


def loc(n, file=None):
    f = file or getattr(n, "file", None) or "?"
    return "%s:%d" % (f, n["sp"][0])


# ---------------------------------------------------------------- unparse
PREC = {"||": 1, "&&": 2, "==": 3, "!=": 3, "<": 3, "<=": 3, ">": 3, ">=": 3, "|": 4, "^": 5, "&": 6,
        "<<": 7, ">>": 7, "+": 8, "-": 8, "*": 9, "/": 9, "%": 9}


def up(n):
    """canonical single-line text of an expression/pattern/statement node."""
    if n is None:
        return ""
    if isinstance(n, str):
        return n
    if isinstance(n, list):
        return ",".join(up(x) for x in n)
    if not isinstance(n, Node):
        return json.dumps(n, sort_keys=True)
    k = n.k
    if k == "lit":
        t = n["t"]
        if t == "str":
            return json.dumps(n["v"])
        if t in ("int", "float"):
            return n["v"] + n.get("suffix", "")
        if t == "bool":
            return "true" if n["v"] else "false"
        if t == "byte":
            return "b%d" % n["v"]
        if t == "char":
            return "'%s'" % n["v"].replace("\\", "\\\\").replace("\t", "\\t").replace("\n", "\\n").replace("\0", "\\0")
        return str(n["v"])
    if k == "path":
        g = n.get("generics")
        return n["path"] + ("::<%s>" % ",".join(g) if g else "")
    if k == "call":
        return "%s(%s)" % (up(n["func"]), ",".join(up(a) for a in n["args"]))
    if k == "mcall":
        tf = n.get("turbofish")
        return "%s.%s%s(%s)" % (_atom(n["recv"]), n["method"], "::<%s>" % ",".join(tf) if tf else "",
                                ",".join(up(a) for a in n["args"]))
    if k == "binary":
        op = n["op"]
        p = PREC.get(op, 0)
        l, r = n["l"], n["r"]
        ls, rs = up(l), up(r)
        if isinstance(l, Node) and l.k == "binary" and PREC.get(l["op"], 0) < p:
            ls = "(" + ls + ")"
        if isinstance(r, Node) and r.k == "binary" and PREC.get(r["op"], 0) <= p:
            rs = "(" + rs + ")"
        if isinstance(l, Node) and l.k in ("closure", "if", "match", "range"):
            ls = "(" + ls + ")"
        if isinstance(r, Node) and r.k in ("closure", "if", "match", "range"):
            rs = "(" + rs + ")"
        return "%s %s %s" % (ls, op, rs)
    if k == "unary":
        return n["op"] + _atom(n["e"])
    if k == "assign":
        return "%s = %s" % (up(n["l"]), up(n["r"]))
    if k == "field":
        return "%s.%s" % (_atom(n["base"]), n["member"])
    if k == "index":
        return "%s[%s]" % (_atom(n["base"]), up(n["index"]))
    if k == "if":
        s = "if %s %s" % (up(n["cond"]), up(n["then"]))
        if n.get("else") is not None:
            s += " else " + up(n["else"])
        return s
    if k == "match":
        return "match %s {%s}" % (up(n["scrut"]), " ".join(up(a) for a in n["arms"]))
    if k == "arm":
        g = " if " + up(n["guard"]) if n.get("guard") is not None else ""
        return "%s%s => %s," % (up(n["pat"]), g, up(n["body"]))
    if k == "loop":
        return "loop " + up(n["body"])
    if k == "while":
        return "while %s %s" % (up(n["cond"]), up(n["body"]))
    if k == "for":
        return "for %s in %s %s" % (up(n["pat"]), up(n["iter"]), up(n["body"]))
    if k == "block":
        return "{" + " ".join(up(s) for s in n["stmts"]) + "}"
    if k == "closure":
        return "%s%s|%s| %s" % ("async " if n.get("async") else "", "move " if n.get("move") else "",
                                ",".join(up(p) for p in n["inputs"]), up(n["body"]))
    if k == "ref":
        return "&" + ("mut " if n["mut"] else "") + _atom(n["e"])
    if k == "tuple":
        return "(" + ",".join(up(x) for x in n["elems"]) + ")"
    if k == "array":
        return "[" + ",".join(up(x) for x in n["elems"]) + "]"
    if k == "repeat":
        return "[%s; %s]" % (up(n["e"]), up(n["len"]))
    if k == "struct":
        fs = ",".join("%s: %s" % (f["name"], up(f["e"])) for f in n["fields"])
        rest = ", .." + up(n["rest"]) if n.get("rest") is not None else ""
        return "%s{%s%s}" % (n["path"], fs, rest)
    if k == "cast":
        return "%s as %s" % (_atom(n["e"]), n["ty"])
    if k == "try":
        return _atom(n["e"]) + "?"
    if k == "await":
        return _atom(n["e"]) + ".await"
    if k == "return":
        return "return " + up(n["e"]) if n.get("e") is not None else "return"
    if k == "break":
        s = "break"
        if n.get("label"):
            s += " '" + n["label"]
        if n.get("e") is not None:
            s += " " + up(n["e"])
        return s
    if k == "continue":
        return "continue"
    if k == "range":
        return "%s%s%s" % (up(n["from"]) if n.get("from") is not None else "", "..=" if n["inclusive"] else "..",
                           up(n["to"]) if n.get("to") is not None else "")
    if k == "let_expr":
        return "let %s = %s" % (up(n["pat"]), up(n["e"]))
    if k == "macro":
        if "args" in n:
            return "%s!(%s)" % (n["path"], ",".join(up(a) for a in n["args"]))
        if "repeat" in n:
            return "%s![%s; %s]" % (n["path"], up(n["repeat"]["e"]), up(n["repeat"]["len"]))
        return "%s!(%s)" % (n["path"], n["tokens"])
    if k == "async":
        return "async %s%s" % ("move " if n.get("move") else "", up(n["body"]))
    if k == "unsafe":
        return "unsafe " + up(n["body"])
    if k == "let":
        s = "let %s" % up(n["pat"])
        if n.get("init") is not None:
            s += " = " + up(n["init"])
        if n.get("else") is not None:
            s += " else " + up(n["else"])
        return s + ";"
    if k == "expr_stmt":
        return up(n["e"]) + (";" if n.get("semi") else "")
    if k == "item_stmt":
        return "<item %s>" % n["item"].get("name", "")
    # patterns
    if k == "p_ident":
        s = ("ref " if n["byref"] else "") + ("mut " if n["mut"] else "") + n["name"]
        if n.get("sub") is not None:
            s += " @ " + up(n["sub"])
        return s
    if k == "p_tuple":
        return "(" + ",".join(up(x) for x in n["elems"]) + ")"
    if k == "p_tstruct":
        return n["path"] + "(" + ",".join(up(x) for x in n["elems"]) + ")"
    if k == "p_struct":
        return n["path"] + "{" + ",".join("%s: %s" % (f["name"], up(f["pat"])) for f in n["fields"]) + (
            ",.." if n["rest"] else "") + "}"
    if k == "p_path":
        return n["path"]
    if k == "p_lit":
        return up(n["lit"])
    if k == "p_wild":
        return "_"
    if k == "p_rest":
        return ".."
    if k == "p_or":
        return "|".join(up(x) for x in n["cases"])
    if k == "p_ref":
        return "&" + ("mut " if n["mut"] else "") + up(n["pat"])
    if k == "p_type":
        return up(n["pat"]) + ": " + n["ty"]
    if k == "p_slice":
        return "[" + ",".join(up(x) for x in n["elems"]) + "]"
    if k in ("p_range", "p_other", "other", "other_item"):
        return n.get("t", "")
    if k == "fn":
        return "fn %s" % n["name"]
    return "<%s>" % k


def _atom(n):
    s = up(n)
    if isinstance(n, Node) and n.k in ("binary", "cast", "unary", "closure", "range", "assign", "ref", "if", "match"):
        return "(" + s + ")"
    return s


# ---------------------------------------------------------------- queries
def calls(root, method=None, func=None):
    """method calls by method name and/or function calls by path suffix."""
    for n in walk_no_nested_fn(root):
        if method is not None and n.k == "mcall" and (n["method"] == method or (isinstance(method, (set, tuple, list)) and n["method"] in method)):
            yield n
        elif func is not None and n.k == "call" and isinstance(n["func"], Node) and n["func"].k == "path":
            p = n["func"]["path"]
            names = func if isinstance(func, (set, tuple, list)) else (func,)
            for f in names:
                if p == f or p.endswith("::" + f):
                    yield n
                    break


def ancestors(n):
    p = n.parent
    while p is not None:
        yield p
        p = getattr(p, "parent", None)


def enclosing(n, kinds):
    for a in ancestors(n):
        if a.k in kinds:
            return a
    return None


def strip(n):
    """strip refs, derefs, parens-equivalents, `as` casts to same-ish ints, clone(), to_owned() etc."""
    while isinstance(n, Node):
        if n.k == "ref":
            n = n["e"]
        elif n.k == "unary" and n["op"] == "*":
            n = n["e"]
        elif n.k == "mcall" and n["method"] in ("clone", "to_owned", "copied", "cloned", "into", "borrow_mut", "borrow", "as_ref", "as_mut") and not n["args"]:
            n = n["recv"]
        else:
            break
    return n


def strip_cast(n):
    n = strip(n)
    while isinstance(n, Node) and n.k == "cast":
        n = strip(n["e"])
    while isinstance(n, Node) and n.k == "call" and isinstance(n["func"], Node) and n["func"].k == "path" and \
            n["func"]["path"] in ("u64::from", "u32::from", "f64::from", "usize::from", "u16::from") and len(n["args"]) == 1:
        n = strip(n["args"][0])
    return n


# conditional containers: (node kind, child key) pairs under which execution is
# not guaranteed when the container is reached
COND_KEYS = {("if", "then"), ("if", "else"), ("arm", "body"), ("arm", "guard"), ("loop", "body"), ("while", "body"),
             ("while", "cond"), ("for", "body"), ("closure", "body"), ("async", "body")}


def cond_ancestors(n):
    """list of (ancestor, key) pairs that make n conditional, innermost first."""
    out = []
    child = n
    p = n.parent
    while p is not None and isinstance(p, Node):
        key = child.pkey
        if (p.k, key) in COND_KEYS:
            out.append((p, key))
        # right operand of && / || is conditional
        if p.k == "binary" and p["op"] in ("&&", "||") and key == "r":
            out.append((p, key))
        if p.k == "let" and key == "else":
            out.append((p, key))
        child = p
        p = getattr(p, "parent", None)
    return out


def dominates(a, b):
    """a is executed before b on every path reaching b (structured approximation:
    a precedes b in evaluation order and every conditional container of a also
    contains b through the same branch). Loop bodies count as conditional."""
    if a.fn is not b.fn:
        return False
    if not (a.order < b.order):
        return False
    if _is_ancestor(a, b):
        # an enclosing expression is not "executed before" its sub-expression
        return False
    ca = cond_ancestors(a)
    for (anc, key) in ca:
        if not _is_ancestor_via(anc, key, b):
            return False
    # a diverging statement between? not needed for dominance.
    return True


def _is_ancestor(a, b):
    p = b.parent
    while p is not None and isinstance(p, Node):
        if p is a:
            return True
        p = getattr(p, "parent", None)
    return False


def _is_ancestor_via(anc, key, b):
    child = b
    p = b.parent
    while p is not None and isinstance(p, Node):
        if p is anc:
            return child.pkey == key
        child = p
        p = getattr(p, "parent", None)
    return False


def toplevel_stmt(n):
    """the direct child statement of the function body containing n"""
    fn = n.fn
    body = fn.body if fn is not None else None
    x = n
    while x is not None and isinstance(x, Node):
        if x.parent is body:
            return x
        x = x.parent
    return None


def precedes_toplevel(a, b):
    """the top-level statement holding a comes strictly before the one holding b (a may be conditional inside it)"""
    ta, tb = toplevel_stmt(a), toplevel_stmt(b)
    return ta is not None and tb is not None and ta.order < tb.order and ta is not tb


def stmt_of(n):
    """the statement (let / expr_stmt) node containing n, innermost."""
    x = n
    while x is not None and isinstance(x, Node):
        if x.k in ("let", "expr_stmt"):
            return x
        x = x.parent
    return None


def value_stmt_of(n):
    """like stmt_of, but when n is the value of a block in tail position (`let x = { ..; n }`, an inlined helper body) the statement that
    receives the block's value"""
    st = stmt_of(n)
    while st is not None and st.k == "expr_stmt" and not st.get("semi") and st.parent is not None and st.parent.k == "block" and st.parent["stmts"][-1] is st \
            and st.parent.parent is not None and isinstance(st.parent.parent, Node) and st.parent.parent.k != "fn":
        up_ = stmt_of(st.parent)
        if up_ is None:
            break
        st = up_
    return st


def bindings(fn):
    """map local name -> list of binding sites: ('param', idx) | ('let', let_node, path) |
    ('pat', node, path) for match/for/closure patterns. path = tuple of selectors
    into the initialiser: ints for tuple positions, strings for struct fields,
    ('ts', PathName, idx) for tuple-struct patterns."""
    out = {}
    for i, (nm, ty) in enumerate(fn.params):
        if nm:
            out.setdefault(nm, []).append(("param", i, ()))
    # patterns in param position (destructured params) ignored
    body = fn.body
    if body is None:
        return out

    def pat_names(p, path, site):
        k = p.k
        if k == "p_ident":
            out.setdefault(p["name"], []).append(site + (path,))
            if p.get("sub") is not None:
                pat_names(p["sub"], path, site)
        elif k == "p_tuple":
            for i, e in enumerate(p["elems"]):
                pat_names(e, path + (i,), site)
        elif k == "p_tstruct":
            for i, e in enumerate(p["elems"]):
                pat_names(e, path + (("ts", p["path"], i),), site)
        elif k == "p_struct":
            for f in p["fields"]:
                pat_names(f["pat"], path + (f["name"],), site)
        elif k in ("p_ref", "p_type"):
            pat_names(p["pat"], path, site)
        elif k == "p_or":
            for c in p["cases"]:
                pat_names(c, path, site)
        elif k == "p_slice":
            for i, e in enumerate(p["elems"]):
                pat_names(e, path + (("slice", i),), site)

    for n in walk_no_nested_fn(body):
        if n.k == "let":
            pat_names(n["pat"], (), ("let", n))
        elif n.k == "arm":
            pat_names(n["pat"], (), ("arm", n))
        elif n.k == "for":
            pat_names(n["pat"], (), ("for", n))
        elif n.k == "closure":
            for i, p in enumerate(n["inputs"]):
                pat_names(p, (), ("closure_param", n, i) if False else ("closure", n))
        elif n.k == "let_expr":
            pat_names(n["pat"], (), ("iflet", n))
    return out


def resolve_local(fn, name, at=None, _cache={}):
    """binding sites for `name` visible in fn (all of them; callers usually
    require exactly one)."""
    key = id(fn)
    if key not in _cache or _cache[key][0] is not fn:
        _cache[key] = (fn, bindings(fn))
    return _cache[key][1].get(name, [])


def binding_before(fn, name, at):
    """nearest binding site of `name` that precedes node `at` in evaluation order (shadowing aware)."""
    best = None
    for s in resolve_local(fn, name):
        o = -1 if s[0] == "param" else s[1].order
        if s[0] != "param" and not _in_scope(s, at):
            continue
        if o < at.order and (best is None or o > best[0]):
            best = (o, s)
    return best[1] if best else None


def _in_scope(site, at):
    kind, node = site[0], site[1]
    if kind == "let":
        scope = node.parent
        # the initialiser itself is outside the scope
        if _is_ancestor(node, at):
            return False
    elif kind in ("arm", "for", "closure"):
        scope = node
    elif kind == "iflet":
        if _is_ancestor(node, at):
            return False        # the scrutinee of `if let PAT = E` is evaluated outside the pattern's scope
        scope = node.parent
        while scope is not None and isinstance(scope, Node) and scope.k not in ("if", "while"):
            scope = getattr(scope, "parent", None)
    else:
        return True
    return scope is not None and _is_ancestor(scope, at)


def sha_file(path):
    h = hashlib.sha256()
    with open(path, "rb") as fh:
        h.update(fh.read())
    return h.hexdigest()


# ----------------------------------------------------------------------------------------------------------------------
# normal-form text: `upn(fn, n)` prints an expression after behaviour-preserving normalisations, so that rules can compare code with
# an expected form without being sensitive to everyday refactorings:
#   * a local bound by one immutable `let` with a pure initialiser is replaced by that initialiser (hoisted / inlined temporaries)
#   * std::cmp::min(a, b) / a.min(b) / max likewise print as min(A,B) with sorted arguments
#   * a > b prints as b < a, a >= b as b <= a; operands of + * == != are sorted
#   * parentheses and `as` casts between integer types keep their place (casts are printed), parens are dropped
_PURE_METHODS = {"get", "unwrap", "map", "unwrap_or", "map_or", "is_some_and", "is_none_or", "and_then", "filter", "unwrap_or_default", "cmp", "partial_cmp", "is_lt", "is_gt", "is_le", "is_ge", "is_eq", "is_ne", "min", "max", "len", "clone", "as_ref", "first", "last", "is_empty", "is_some", "is_none",
                 "as_bytes", "saturating_add", "saturating_sub", "saturating_mul", "checked_sub", "checked_add", "checked_mul", "wrapping_add", "abs", "floor", "ceil", "to_string", "iter", "copied", "clamp", "pow", "sqrt", "powi", "powf", "ln", "exp", "round", "trunc", "is_nan", "is_finite", "signum", "rem_euclid", "div_euclid", "abs_diff", "leading_zeros", "trailing_zeros", "count_ones", "trim_end", "trim", "as_str", "borrow", "borrow_mut", "to_owned"}


def pure_expr(e, fn=None, depth=0):
    for x in walk_no_nested_fn(e):
        if x.k in ("try", "return", "macro", "await", "assign", "break", "continue", "while", "loop", "for", "let", "item_stmt"):
            return False
        if x.k == "block" and not (len(x["stmts"]) == 1 and x["stmts"][0].k == "expr_stmt" and not x["stmts"][0].get("semi")):
            return False    # only `{ expr }`
        if x.k == "if" and x.get("else") is None:
            return False
        if x.k == "call":
            f = up(x["func"])
            if f.split("::")[-1] not in ("min", "max", "from", "Some", "Ok") and not f.split("::")[-1][:1].isupper():   # tuple-struct / variant constructors are pure
                g = _simple_helper(fn, x) if fn is not None and depth < 3 else None
                if g is None or not pure_expr(g.body["stmts"][0]["e"], g, depth + 1):
                    return False
        if x.k == "mcall" and x["method"] not in _PURE_METHODS:
            return False
        if x.k == "binary" and x["op"] in ("+=", "-=", "*=", "/=", "="):
            return False
    return True


CURRENT_AST = None


def _simple_helper(fn, call):
    """the private, expression-bodied helper of the same file that `call` invokes by plain name, or None"""
    if CURRENT_AST is None or fn is None or not isinstance(call.get("func"), Node) or call["func"].k != "path":
        return None
    nm = call["func"]["path"]
    if "::" in nm:
        return None
    cands = [g for g in CURRENT_AST.fns if g.name == nm and g.file == fn.file and not g.is_test and g.body is not None]
    if len(cands) != 1:
        return None
    g = cands[0]
    st = g.body["stmts"]
    if len(st) != 1 or st[0].k != "expr_stmt" or len(g.params) != len(call["args"]) or any(nm_ is None or nm_ == "self" for nm_, _ in g.params):
        return None
    if not pure_expr(st[0]["e"]) and not all(x.k != "try" for x in walk_no_nested_fn(st[0]["e"])):
        return None
    return g


def _subst(n, env):
    """copy of expression n with parameter paths replaced by (already normalised) argument nodes"""
    if isinstance(n, list):
        return [_subst(x, env) for x in n]
    if not isinstance(n, Node):
        return n
    if n.k == "path" and n["path"] in env:
        return env[n["path"]]
    out = Node({})
    out.parent = None
    out.pkey = None
    out.fn = None
    out.file = None
    out.order = -1
    for key, v in n.items():
        if isinstance(v, (Node, list)):
            out[key] = _subst(v, env)
        elif isinstance(v, dict):
            out[key] = {kk: _subst(vv, env) for kk, vv in v.items()}
        else:
            out[key] = v
    return out


def _place_text(n):
    n0 = n
    while isinstance(n, Node) and (n.k in ("field", "paren", "index") or (n.k == "unary" and n["op"] == "*") or n.k == "ref"):
        n = n["base"] if n.k in ("field", "index") else n["e"]
    if isinstance(n, Node) and n.k == "path":
        return re.sub(r"[*&()]|\bmut ", "", up(n0)).strip()
    return None


def assigned_places(fn, _cache={}):
    """texts of the places a function writes: assignment targets, `&mut` borrows, receivers of methods not known to be pure, `mut` locals"""
    key = id(fn)
    if key in _cache and _cache[key][0] is fn:
        return _cache[key][1]
    out = []
    if fn.body is not None:
        for x in walk(fn.body):
            t = None
            if x.k == "assign" or (x.k == "binary" and x["op"] in ("+=", "-=", "*=", "/=", "%=", "|=", "&=", "^=", "<<=", ">>=")):
                t = _place_text(x["l"])
            elif x.k == "ref" and x.get("mut"):
                t = _place_text(x["e"])
            elif x.k == "mcall" and x["method"] not in _PURE_METHODS:
                t = _place_text(x["recv"])
            elif x.k == "p_ident" and x.get("mut"):
                t = x["name"]
            if t:
                out.append((t, x.order))
    _cache[key] = (fn, out)
    return out


def _reads_assigned(fn, init, lo=None, hi=None):
    """the initialiser reads a place that is written between the `let` (order lo) and the use (order hi): replacing the local by its
    initialiser there would read the later value"""
    if fn is None:
        return False
    asg = {t for t, o in assigned_places(fn) if (lo is None or o > lo) and (hi is None or hi < 0 or o < hi)}
    if not asg:
        return False
    for x in walk_no_nested_fn(init):
        if x.k in ("path", "field", "index") or (x.k == "unary" and x["op"] == "*"):
            if x.parent is not None and isinstance(x.parent, Node) and x.parent.k in ("field", "index") and x.pkey == "base":
                continue    # only maximal place expressions
            t = _place_text(x)
            if t is None:
                continue
            for a in asg:
                if t == a or t.startswith(a + ".") or a.startswith(t + ".") or t.startswith(a + "["):
                    return True
    return False


NO_INLINE_NAMES = set()      # locals a rule wants kept as names (it supplies their values itself); set around a _tnorm call


def tnorm_keeping(fn, n, names):
    """_tnorm, but the given locals are left as names"""
    global NO_INLINE_NAMES
    old = NO_INLINE_NAMES
    NO_INLINE_NAMES = set(names)
    try:
        return _tnorm(fn, n)
    finally:
        NO_INLINE_NAMES = old


def _tnorm(fn, n, depth=0, hi=None):
    if isinstance(n, list):
        return [_tnorm(fn, x, depth, hi) for x in n]
    if not isinstance(n, Node):
        return n
    k = n.k
    if k == "paren":
        return _tnorm(fn, n["e"], depth, hi)
    if k == "call" and depth < 6:
        g = _simple_helper(fn, n)
        if g is not None:
            env = {nm: _tnorm(fn, a, depth + 1, hi) for (nm, _), a in zip(g.params, n["args"])}
            body = _tnorm(g, g.body["stmts"][0]["e"], depth + 1)
            return _subst(body, env)
    if k == "path" and fn is not None and "::" not in n["path"] and depth < 8 and n["path"] not in NO_INLINE_NAMES:
        try:
            b = binding_before(fn, n["path"], n)
        except Exception:
            b = None
        if b is not None and b[0] == "let" and b[-1] == () and b[1].get("init") is not None and b[1]["pat"].k == "p_ident" \
                and not b[1]["pat"].get("mut") and not b[1]["pat"].get("byref") and pure_expr(b[1]["init"], fn) and not _reads_assigned(fn, b[1]["init"], b[1].order, hi if hi is not None else n.order):
            return _tnorm(fn, b[1]["init"], depth + 1, hi if hi is not None else n.order)
        # `let (a, b) = (x, y);`: position i of a tuple literal
        if b is not None and b[0] == "let" and len(b[-1]) == 1 and isinstance(b[-1][0], int) and b[1].get("init") is not None and b[1]["pat"].k == "p_tuple":
            tup = strip(b[1]["init"])
            pe = b[1]["pat"]["elems"][b[-1][0]] if b[-1][0] < len(b[1]["pat"]["elems"]) else None
            if isinstance(tup, Node) and tup.k == "tuple" and b[-1][0] < len(tup["elems"]) and pe is not None and pe.k == "p_ident" and not pe.get("mut") and not pe.get("byref") \
                    and all(pure_expr(x, fn) for x in tup["elems"]) and not _reads_assigned(fn, tup, b[1].order, hi if hi is not None else n.order):
                return _tnorm(fn, tup["elems"][b[-1][0]], depth + 1, hi if hi is not None else n.order)
    out = Node({})
    out.parent = n.parent        # copies keep their place in the original tree (scope / origin queries on leaves keep working)
    out.pkey = n.pkey
    out.fn = n.fn
    out.file = n.file
    out.order = n.order
    for key, v in n.items():
        if isinstance(v, Node) or isinstance(v, list):
            out[key] = _tnorm(fn, v, depth, hi)
        elif isinstance(v, dict):
            out[key] = {kk: _tnorm(fn, vv, depth, hi) for kk, vv in v.items()}
        else:
            out[key] = v
    # min / max: one canonical spelling, sorted arguments
    if k == "call" and isinstance(out.get("func"), Node) and out["func"].k == "path" and out["func"]["path"].split("::")[-1] in ("min", "max") and len(out["args"]) == 2:
        a0, a1 = out["args"]
        m = out["func"]["path"].split("::")[-1]
        out = Node({"k": "mcall", "method": m, "recv": a0, "args": [a1], "sp": n.get("sp")})
        out.parent = None
        out.pkey = None
        out.fn = None
        out.file = None
        out.order = -1
        k = "mcall"
    if k == "mcall" and out["method"] in ("min", "max") and len(out["args"]) == 1:
        if up(out["recv"]) > up(out["args"][0]):
            out["recv"], out["args"] = out["args"][0], [out["recv"]]
    if k == "binary":
        if out["op"] in (">", ">="):
            out["op"] = "<" if out["op"] == ">" else "<="
            out["l"], out["r"] = out["r"], out["l"]
        elif out["op"] in ("+", "*", "==", "!="):
            if up(out["l"]) > up(out["r"]):
                out["l"], out["r"] = out["r"], out["l"]
    return out


def upn(fn, n):
    """normal-form text of expression n (see above)."""
    return up(_tnorm(fn, strip(n) if isinstance(n, Node) else n))


def opt_dispatch(n):
    """recognise a dispatch on an Option in its three spellings; -> (scrutinee node, bound name or None, some-body node, none-body node or None) or None
       match E { Some(x) => A, None => B } | if let Some(x) = E { A } else { B } | let Some(x) = E else { B };  (for the last, some-body is None)"""
    n = strip(n) if isinstance(n, Node) else n
    if not isinstance(n, Node):
        return None
    if n.k == "match" and len(n["arms"]) == 2:
        pats = {up(a["pat"]).split("(")[0]: a for a in n["arms"]}
        if set(pats) == {"Some", "None"} and pats["Some"].get("guard") is None:
            nm = up(pats["Some"]["pat"])[5:-1]
            return (n["scrut"], nm, pats["Some"]["body"], pats["None"]["body"])
    if n.k == "if" and strip(n["cond"]).k == "let_expr" and up(strip(n["cond"])["pat"]).startswith("Some("):
        c = strip(n["cond"])
        return (c["e"], up(c["pat"])[5:-1], n["then"], n.get("else"))
    if n.k == "let" and n.get("else") is not None and up(n["pat"]).startswith("Some("):
        return (n["init"], up(n["pat"])[5:-1], None, n["else"])
    return None


def private_callees(ast, fn, depth=2):
    """functions of the same file that fn calls by plain name (helpers a refactoring may have extracted), transitively up to depth"""
    out, seen, frontier = [], {fn.qual}, [fn]
    for _ in range(depth):
        nxt = []
        for f in frontier:
            if f.body is None:
                continue
            for c in walk_no_nested_fn(f.body):
                nm = None
                if c.k == "call" and isinstance(c["func"], Node) and c["func"].k == "path":
                    nm = c["func"]["path"].split("::")[-1]
                elif c.k == "mcall" and up(strip(c["recv"])) in ("self", "Self"):
                    nm = c["method"]
                elif c.k == "path" and c.parent is not None and isinstance(c.parent, Node) and c.parent.k in ("mcall", "call") and c.pkey == "args":
                    nm = c["path"].split("::")[-1]       # a function passed by name: `.map(wrap_in_parent_node)`
                if nm is None:
                    continue
                for g in ast.fns:
                    if g.name == nm and g.file == fn.file and not g.is_test and g.qual not in seen and g.body is not None:
                        seen.add(g.qual)
                        out.append(g)
                        nxt.append(g)
        frontier = nxt
    return out


def walk_with_callees(ast, fn, depth=2):
    """nodes of fn's body followed by the nodes of its private callees' bodies"""
    for x in walk_no_nested_fn(fn.body):
        yield x
    for g in private_callees(ast, fn, depth):
        for x in walk_no_nested_fn(g.body):
            yield x


# ----------------------------------------------------------------------------------------------------------------------
# helper inlining: `AstBase.fn(.., inline=True)` returns a view of the function in which calls of helpers defined in the same file
# (plain-name calls and `self.helper(..)`) are replaced by `{ let <param> = <arg>; ... <helper body> }`, so that rules written
# against the inlined form do not care whether a piece of code was extracted into a helper.  A call is inlined only when doing so
# preserves meaning: the helper has no `return`, uses `?` only if the call site propagates its result (`helper(..)?`, tail
# expression or `return helper(..)`), takes identifier parameters, is not recursive, and no argument mentions an earlier parameter.
def _mknode(d):
    n = Node(d)
    n.parent = None
    n.pkey = None
    n.fn = None
    n.file = None
    n.order = -1
    return n


def _copy_tree(v):
    if isinstance(v, Node):
        return _mknode({k: _copy_tree(x) for k, x in v.items()})
    if isinstance(v, list):
        return [_copy_tree(x) for x in v]
    if isinstance(v, dict):
        return {k: _copy_tree(x) for k, x in v.items()}
    return v


def _helper_for(ast, fn, c, stack):
    if c.k == "call" and isinstance(c.get("func"), Node) and c["func"].k == "path":
        nm = c["func"]["path"]
        ty_ = None
        if nm.startswith("Self::"):
            nm = nm[6:]
        elif nm.count("::") == 1 and nm.split("::")[0][:1].isupper():
            ty_, nm = nm.split("::")           # `Type::helper(..)`: an associated function of a type of this file
        if "::" in nm:
            return None
        want_self = False
    elif c.k == "mcall" and up(strip(c["recv"])) == "self":
        nm = c["method"]
        want_self = True
    else:
        return None
    cands = [g for g in ast.fns if g.name == nm and g.file == fn.file and not g.is_test and g.body is not None and g.qual not in stack
             and bool(g.params and g.params[0][0] == "self") == want_self]
    if want_self:
        impl_of = lambda f: [n.split(" as ")[0] for kind, n in f.container if kind == "impl"]
        cands = [g for g in cands if impl_of(g)[-1:] == impl_of(fn)[-1:] or len(cands) == 1]
    elif c.k == "call" and ty_ is not None:
        cands = [g for g in cands if [re.sub(r"<.*", "", n.split(" as ")[0]).strip() for kind, n in g.container if kind == "impl"][-1:] == [ty_]]
    elif c.k == "call":
        cands = [g for g in cands if not any(kind == "impl" for kind, n in g.container) or c["func"]["path"].startswith("Self::")]
    cands = [g for g in cands if not any(kind == "impl" and " as " in n for kind, n in g.container[-1:])]   # trait methods are interfaces, not extracted helpers
    if len(cands) != 1:
        return None
    g = cands[0]
    params = [p for p in g.params if p[0] != "self"]
    if len(params) != len(c["args"]) or any(p[0] is None for p in params):
        return None
    if g.node["sig"].get("async") and not (c.parent is not None and isinstance(c.parent, Node) and c.parent.k == "await"):
        return None        # an async helper is inlined only where its future is awaited on the spot
    for x in walk_no_nested_fn(g.body):
        if x.k == "return" or (x.k == "await" and not g.node["sig"].get("async")):
            return None
    seen = []
    for (pn, _), a in zip(params, c["args"]):
        names = {y["path"] for y in walk(a) if y.k == "path"}
        if names & set(seen):
            return None
        seen.append(pn)
    return g


def _local_closure(view, c):
    """(name, closure node) when call c invokes a closure bound by an immutable `let NAME = |p, ..| body;` whose parameters are plain identifiers, whose body
    has no `return` / `?` / `await`, and which captures nothing that is written between its definition and the call"""
    if not (c.k == "call" and isinstance(c.get("func"), Node) and c["func"].k == "path" and "::" not in c["func"]["path"]):
        return None
    try:
        b = binding_before(view, c["func"]["path"], c)
    except Exception:
        return None
    if b is None or b[0] != "let" or b[-1] != () or b[1].get("init") is None or b[1]["pat"].k != "p_ident" or b[1]["pat"].get("mut"):
        return None
    cl = strip(b[1]["init"])
    if not (isinstance(cl, Node) and cl.k == "closure") or len(cl["inputs"]) != len(c["args"]) or cl.get("async"):
        return None
    names = []
    for p_ in cl["inputs"]:
        q = p_
        while q.k == "p_type":
            q = q["pat"]
        if q.k != "p_ident":
            return None
        names.append(q["name"])
    for x in walk_no_nested_fn(cl["body"]):
        if x.k in ("return", "try", "await"):
            return None
    seen = []
    for nm, a in zip(names, c["args"]):
        if {y["path"] for y in walk(a) if y.k == "path"} & set(seen):
            return None
        seen.append(nm)
    if _reads_assigned(view, cl["body"], b[1].order, c.order):
        return None
    return c["func"]["path"], cl


def _propagating_site(c):
    """the call's value is `?`-propagated, returned, or the tail of the function body"""
    p = c.parent
    if p is None:
        return False
    if p.k in ("try", "return"):
        return True
    x = c
    while p is not None and isinstance(p, Node):
        if p.k == "expr_stmt":
            if p.get("semi"):
                return False
            blk = p.parent
            if blk is None or blk.k != "block" or blk["stmts"][-1] is not p:
                return False
            x, p = blk, blk.parent
            continue
        if p.k in ("if", "match", "arm", "block", "paren"):
            if p.k == "if" and x.pkey == "cond":
                return False
            if p.k == "match" and x.pkey == "scrut":
                return False
            x, p = p, p.parent
            continue
        if p.k == "fn":
            return True
        return False
    return False


def _invalidate(fn):
    """drop the per-function caches (bindings, assigned places) after the function's tree was edited"""
    for f_ in (resolve_local, assigned_places):
        for d in (f_.__defaults__ or ()):
            if isinstance(d, dict):
                d.pop(id(fn), None)


def inline_helpers(ast, fn, depth=2, keep=()):
    node = _copy_tree(fn.node)
    view = Fn(node, fn.file, fn.container, fn.qual)
    view.is_test = fn.is_test
    view.inlined = []
    for _ in range(depth):
        ast._annotate(view)
        _invalidate(view)
        changed = False
        for c in list(walk_no_nested_fn(view.body)):
            if c.k not in ("call", "mcall"):
                continue
            g = _helper_for(ast, fn, c, {fn.qual} | set(view.inlined) if False else {fn.qual})
            if g is None:
                # a local closure bound by an immutable `let` and called by name: `let hits = |a, b| expr; .. hits(x, y)`
                lc = _local_closure(view, c)
                if lc is not None and lc[0] not in keep:
                    name_, clos = lc
                    pats = []
                    for p_ in clos["inputs"]:
                        q = p_
                        while q.k == "p_type":
                            q = q["pat"]
                        pats.append(q)
                    body = strip(clos["body"])
                    stmts = [_mknode({"k": "let", "pat": _copy_tree(pt), "attrs": [], "init": a, "else": None, "sp": c.get("sp")}) for pt, a in zip(pats, c["args"])]
                    if body.k == "block":
                        stmts += _copy_tree(body["stmts"])
                    else:
                        stmts.append(_mknode({"k": "expr_stmt", "e": _copy_tree(body), "semi": False, "sp": c.get("sp")}))
                    blk = _mknode({"k": "block", "stmts": stmts, "sp": c.get("sp"), "inlined_from": "closure " + name_})
                    if _replace_child(c.parent, c, blk):
                        view.inlined.append("closure " + name_)
                        changed = True
                continue
            if g.name in keep:
                continue
            if any(x.k == "try" for x in walk_no_nested_fn(g.body)) and not _propagating_site(c):
                continue
            params = [p for p in g.params if p[0] != "self"]
            pats = [i["pat"] for i in g.node["sig"]["inputs"] if not i.get("self")]
            stmts = []
            for pat, a in zip(pats, c["args"]):
                stmts.append(_mknode({"k": "let", "pat": _copy_tree(pat), "attrs": [], "init": a, "else": None, "sp": c.get("sp")}))
            stmts += _copy_tree(g.body["stmts"])
            blk = _mknode({"k": "block", "stmts": stmts, "sp": c.get("sp"), "inlined_from": g.qual})
            tgt = c.parent if g.node["sig"].get("async") else c       # `helper(..).await` as a whole
            if not _replace_child(tgt.parent, tgt, blk):
                continue
            view.inlined.append(g.qual)
            changed = True
        if not changed:
            break
    ast._annotate(view)
    _invalidate(view)
    return view


def _replace_child(par, old, new):
    if par is None:
        return False
    for k, v in par.items():
        if v is old:
            par[k] = new
            return True
        if isinstance(v, list):
            for i, x in enumerate(v):
                if x is old:
                    v[i] = new
                    return True
                if isinstance(x, dict) and not isinstance(x, Node):
                    for kk, vv in x.items():
                        if vv is old:
                            x[kk] = new
                            return True
        if isinstance(v, dict) and not isinstance(v, Node):
            for kk, vv in v.items():
                if vv is old:
                    v[kk] = new
                    return True
    return False


class LoopView(dict):
    """a `for PAT in ITER { BODY }` loop or its iterator spelling `ITER.map(|PAT| BODY)` / for_each / try_for_each / filter_map / flat_map,
    presented alike: ["iter"], ["pat"], ["body"], .node (the for node or the closure), .k == "for"."""
    @property
    def k(self):
        return "for"


def iter_loops(root):
    """every per-item loop under root: `for` loops and closures handed to map/for_each/try_for_each/filter_map/flat_map"""
    out = []
    for n in walk_no_nested_fn(root):
        if n.k == "for":
            v = LoopView(iter=n["iter"], pat=n["pat"], body=n["body"])
            v.node, v.order, v.parent = n, n.order, n.parent
            out.append(v)
        elif n.k == "mcall" and n["method"] in ("map", "for_each", "try_for_each", "filter_map", "flat_map") and len(n["args"]) == 1:
            c = strip(n["args"][0])
            if isinstance(c, Node) and c.k == "closure" and len(c["inputs"]) == 1:
                v = LoopView(iter=n["recv"], pat=c["inputs"][0], body=c["body"])
                v.node, v.order, v.parent = c, c.order, n
                out.append(v)
    return out


def resolves_to(fn, e, target, depth=0):
    """expression e is `target` itself or a local bound (by one immutable `let`) to it, transitively"""
    e = strip(e)
    if e is target:
        return True
    if depth < 6 and isinstance(e, Node) and e.k == "path" and "::" not in e["path"]:
        b = binding_before(fn, e["path"], e)
        if b is not None and b[0] == "let" and b[-1] == () and b[1].get("init") is not None and not b[1]["pat"].get("mut"):
            return resolves_to(fn, b[1]["init"], target, depth + 1)
    return False
