"""Fact generation: run bt-ast (and bt-mir when asked) over the current /repo tree."""
from __future__ import annotations
import os, subprocess, json, hashlib, glob, sys, time, fcntl
from . import astq

VERIF = os.path.dirname(os.path.dirname(os.path.abspath(__file__)))
REPO = os.environ.get("BT_REPO", "/repo")
BUILD = os.path.join(VERIF, "build")
BT_AST = os.path.join(VERIF, "tools", "bt-ast", "target", "release", "bt-ast")

SRC_DIRS = ["bigtools/src", "bigtools/tests", "pybigtools/src"]


def repo_sources(repo=None):
    repo = repo or REPO
    out = []
    for d in SRC_DIRS:
        for root, _, files in os.walk(os.path.join(repo, d)):
            for f in files:
                if f.endswith(".rs"):
                    out.append(os.path.join(root, f))
    return sorted(out)


def tree_hash(repo=None):
    repo = repo or REPO
    h = hashlib.sha256()
    files = repo_sources(repo)
    for extra in ["Cargo.toml", "Cargo.lock", "bigtools/Cargo.toml", "pybigtools/Cargo.toml", ".cargo/config.toml"]:
        p = os.path.join(repo, extra)
        if os.path.exists(p):
            files.append(p)
    for f in files:
        h.update(os.path.relpath(f, repo).encode())
        with open(f, "rb") as fh:
            h.update(hashlib.sha256(fh.read()).digest())
    return h.hexdigest()


class FactError(Exception):
    pass


def ensure_tools():
    if not os.path.exists(BT_AST):
        r = subprocess.run(["cargo", "build", "--release", "--offline"], cwd=os.path.join(VERIF, "tools", "bt-ast"),
                           env=dict(os.environ, CARGO_NET_OFFLINE="true"), capture_output=True, text=True)
        if r.returncode != 0:
            raise FactError("cannot build bt-ast:\n" + r.stderr[-4000:])


def build_ast(repo=None) -> astq.AstBase:
    """Regenerate AST facts from the working tree (always; ~0.5 s)."""
    repo = repo or REPO
    ensure_tools()
    os.makedirs(BUILD, exist_ok=True)
    out = os.path.join(BUILD, "ast-%d.json" % os.getpid())
    files = repo_sources(repo)
    if len(files) < 40:
        raise FactError("only %d source files found under %s (expected >= 40)" % (len(files), repo))
    r = subprocess.run([BT_AST, out, repo] + files, capture_output=True, text=True)
    if r.returncode not in (0, 3):
        raise FactError("bt-ast failed: " + r.stderr[-2000:])
    try:
        with open(out) as fh:
            doc = json.load(fh, object_hook=astq._hook)
    finally:
        try:
            os.unlink(out)
        except OSError:
            pass
    base = astq.AstBase(doc)
    base.n_files = len(files)
    base.stderr = r.stderr
    return base
