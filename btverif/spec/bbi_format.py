"""The published BBI (bigWig/bigBed) on-disk layout, transcribed from
Kent et al. 2010 (Bioinformatics 26:2204, supplement) and UCSC's bbiFile.h,
bPlusTree.h, cirTree.h, bwgInternal.h -- NOT from bigtools' reader.

Each structure: ordered list of (field, width_bytes, kind) with kind in
  u  unsigned integer      f  IEEE float      z  reserved / must be zero
  b  raw bytes (width None = variable)
"""

BIGWIG_MAGIC = 0x888FFC26
BIGBED_MAGIC = 0x8789F2EB
CHROM_TREE_MAGIC = 0x78CA8C91
CIR_TREE_MAGIC = 0x2468ACE0

COMMON_HEADER = [
    ("magic", 4, "u"), ("version", 2, "u"), ("zoomLevels", 2, "u"),
    ("chromosomeTreeOffset", 8, "u"), ("fullDataOffset", 8, "u"), ("fullIndexOffset", 8, "u"),
    ("fieldCount", 2, "u"), ("definedFieldCount", 2, "u"), ("autoSqlOffset", 8, "u"),
    ("totalSummaryOffset", 8, "u"), ("uncompressBufSize", 4, "u"), ("reserved", 8, "z"),
]
ZOOM_HEADER = [("reductionLevel", 4, "u"), ("reserved", 4, "z"), ("dataOffset", 8, "u"), ("indexOffset", 8, "u")]
TOTAL_SUMMARY = [("basesCovered", 8, "u"), ("minVal", 8, "f"), ("maxVal", 8, "f"), ("sumData", 8, "f"),
                 ("sumSquares", 8, "f")]
CHROM_TREE_HEADER = [("magic", 4, "u"), ("blockSize", 4, "u"), ("keySize", 4, "u"), ("valSize", 4, "u"),
                     ("itemCount", 8, "u"), ("reserved", 8, "z")]
NODE_HEADER = [("isLeaf", 1, "u"), ("reserved", 1, "z"), ("count", 2, "u")]
CHROM_LEAF_ITEM = [("key", None, "b"), ("chromId", 4, "u"), ("chromSize", 4, "u")]
CHROM_NONLEAF_ITEM = [("key", None, "b"), ("childOffset", 8, "u")]
CIR_TREE_HEADER = [("magic", 4, "u"), ("blockSize", 4, "u"), ("itemCount", 8, "u"), ("startChromIx", 4, "u"),
                   ("startBase", 4, "u"), ("endChromIx", 4, "u"), ("endBase", 4, "u"), ("endFileOffset", 8, "u"),
                   ("itemsPerSlot", 4, "u"), ("reserved", 4, "z")]
CIR_LEAF_ITEM = [("startChromIx", 4, "u"), ("startBase", 4, "u"), ("endChromIx", 4, "u"), ("endBase", 4, "u"),
                 ("dataOffset", 8, "u"), ("dataSize", 8, "u")]
CIR_NONLEAF_ITEM = [("startChromIx", 4, "u"), ("startBase", 4, "u"), ("endChromIx", 4, "u"), ("endBase", 4, "u"),
                    ("dataOffset", 8, "u")]
WIG_SECTION_HEADER = [("chromId", 4, "u"), ("chromStart", 4, "u"), ("chromEnd", 4, "u"), ("itemStep", 4, "u"),
                      ("itemSpan", 4, "u"), ("type", 1, "u"), ("reserved", 1, "z"), ("itemCount", 2, "u")]
WIG_BEDGRAPH_ITEM = [("chromStart", 4, "u"), ("chromEnd", 4, "u"), ("val", 4, "f")]
WIG_VARSTEP_ITEM = [("chromStart", 4, "u"), ("val", 4, "f")]
WIG_FIXEDSTEP_ITEM = [("val", 4, "f")]
BED_RECORD = [("chromId", 4, "u"), ("chromStart", 4, "u"), ("chromEnd", 4, "u"), ("rest", None, "b"), ("nul", 1, "z")]
ZOOM_RECORD = [("chromId", 4, "u"), ("chromStart", 4, "u"), ("chromEnd", 4, "u"), ("validCount", 4, "u"),
               ("minVal", 4, "f"), ("maxVal", 4, "f"), ("sumData", 4, "f"), ("sumSquares", 4, "f")]


def size(struct):
    return sum(w for _, w, _ in struct if w is not None)


SIZES = {
    "COMMON_HEADER": 64, "ZOOM_HEADER": 24, "TOTAL_SUMMARY": 40, "CHROM_TREE_HEADER": 32, "NODE_HEADER": 4,
    "CIR_TREE_HEADER": 48, "CIR_LEAF_ITEM": 32, "CIR_NONLEAF_ITEM": 24, "WIG_SECTION_HEADER": 24,
    "WIG_BEDGRAPH_ITEM": 12, "WIG_VARSTEP_ITEM": 8, "WIG_FIXEDSTEP_ITEM": 4, "ZOOM_RECORD": 32,
}
for _n, _s in SIZES.items():
    assert size(globals()[_n]) == _s, (_n, size(globals()[_n]), _s)
