#!/usr/bin/env python3
"""Regenerate MANIFEST.json from btverif/props/*.py (claimed) + NOT_APPLICABLE below."""
import json, os, importlib, sys
sys.path.insert(0, os.path.dirname(os.path.abspath(__file__)))
ALL = ["C%02d" % i for i in range(1, 21)]
NOT_APPLICABLE = {}
checks = []
na = []
engines = {}
for p in ALL:
    try:
        m = importlib.import_module("btverif.props." + p)
    except ModuleNotFoundError:
        na.append({"property_id": p, "reason": NOT_APPLICABLE.get(p, "no static obligation implemented yet for this property in this revision of /verif (see DESIGN.md section 4 for the planned clauses)")})
        continue
    checks.append({
        "property_id": p,
        "quick_cmd": "./check %s --tier quick" % p,
        "thorough_cmd": "./check %s --tier thorough" % p,
        "evidence_file": "/verif/evidence/%s.json" % p,
        "replay_cmd_template": "./check %s --replay {path}" % p,
        "engine": "btverif",
        "level_claimed": {
            "category": "other",
            "text": getattr(m, "LEVEL_TEXT", "Static analysis of /repo's current source: structural necessary conditions of the property decided on every path of the anchored code (" + m.TITLE + "); the behaviour itself is not executed or modelled."),
            "design_ref": "DESIGN.md section 4, " + p,
        },
        "level_note": "Decided: " + m.EXPLANATION + " Undecided: " + getattr(m, "UNDECIDED", "") + " Trusted: " + "; ".join(m.ASSUMPTIONS),
        "technique": getattr(m, "TECHNIQUE", "static analysis: repository-specific rules over syn syntax-tree facts (and rustc MIR facts where an obligation id is C14-E3, C13-V1, C13-P2, C11-D4); rule kinds used: " + ", ".join(sorted(set(r for o in m.OBLIGATIONS for r in o.rule.split("+")))) + ". R-EVAL = finite abstract interpretation of the function's syntax tree (opaque atoms / order types, mocked collaborators, whole abstract input space enumerated); R-EQUIV = normalised expression compared with a reference on a small integer domain; R-SYMX = symbolic straight-line effects. Nothing of bigtools is compiled or run."),
    })
man = {
    "version": 1,
    "setup_cmd": "./setup.sh",
    "hooks": {
        "guard": "bigtools_verif",
        "enable": "none needed: the analysis reads the sources the normal build compiles (no instrumentation in /repo)",
        "baseline_off_cmd": "cd /repo && cargo test --workspace --no-fail-fast --offline",
        "source_commits": [],
        "add_only": True,
    },
    "engines": [
        {"name": "btverif", "path": "/verif/btverif", "serves_properties": [c["property_id"] for c in checks],
         "kind_free_text": "static analysis: bt-ast (syn 2 syntax-tree facts with spans) + bt-mir (rustc_private MIR facts: resolved callees, Result uses, overflow assertions) + Python rule kinds R-LAYOUT, R-PRED (exhaustive order-type truth tables), R-FLOW, R-ORDER, R-SIB, R-STAT, R-TABLE, R-DISC, R-TERM, R-BOUND, R-EQUIV (normal forms + small-domain expression equivalence), R-SYMX (symbolic straight-line effects), R-EVAL (finite abstract interpretation with mocked collaborators); obligations with floors; three outcomes per clause: holds / violation / undecided"},
    ],
    "checks": checks,
    "not_applicable": na,
    "notes": "All checks are static: they regenerate syntax-tree facts from /repo's working tree on every run and never execute bigtools. exit 2 = analysis could not run (no verdict).",
}
json.dump(man, open(os.path.join(os.path.dirname(os.path.abspath(__file__)), "MANIFEST.json"), "w"), indent=1)
print("claimed:", [c["property_id"] for c in checks], "n/a:", [x["property_id"] for x in na])
