#!/usr/bin/env python3
"""Run all 20 checks on a scratch copy of /repo with each given patch file applied; print SILENT/ALARM per patch (ad-hoc false-alarm probe
for behaviour-preserving patches produced outside the corpus). usage: try_patches.py [-j N] file.diff ..."""
import os, subprocess, sys, tempfile, shutil, re
from concurrent.futures import ThreadPoolExecutor
VERIF = os.path.dirname(os.path.dirname(os.path.abspath(__file__)))
REPO = os.environ.get("BT_REPO", "/repo")
PROPS = ["C%02d" % i for i in range(1, 21)]


def one(pf):
    d = tempfile.mkdtemp(prefix="btverif-try-")
    out = tempfile.mkdtemp(prefix="btverif-out-")
    try:
        subprocess.run(["rsync", "-a", "--exclude", "target", "--exclude", ".git", REPO + "/", d + "/"], check=True)
        r = subprocess.run(["git", "apply", "--whitespace=nowarn", os.path.abspath(pf)], cwd=d, capture_output=True, text=True)
        if r.returncode != 0:
            return "SKIPPED %s: %s" % (pf, r.stderr.strip()[:160])
        alarms, und = [], 0
        for p in PROPS:
            c = subprocess.run([os.path.join(VERIF, "check"), p, "--repo", d, "--outroot", out], capture_output=True, text=True)
            und += c.stdout.count("?? undecided here")
            if c.returncode != 0:
                fired = re.findall(r"^\s+\[FAIL\]\s+(\S+)", c.stdout, re.M)
                first = re.findall(r"^\s+-> (.*)$", c.stdout, re.M)
                alarms.append("%s:%s (%s)" % (p, ",".join(fired), first[0][:200] if first else "rc=%d %s" % (c.returncode, (c.stderr or c.stdout)[-200:])))
        return ("ALARM   %s  %s" % (pf, "; ".join(alarms))) if alarms else "SILENT  %s%s" % (pf, "  (%d undecided clause reports)" % und if und else "")
    finally:
        shutil.rmtree(d, ignore_errors=True)
        shutil.rmtree(out, ignore_errors=True)


def main():
    args = sys.argv[1:]
    j = 6
    if args and args[0] == "-j":
        j = int(args[1]); args = args[2:]
    bad = 0
    with ThreadPoolExecutor(j) as ex:
        for line in ex.map(one, args):
            print(line, flush=True)
            bad += line.startswith("ALARM")
    return 1 if bad else 0


if __name__ == "__main__":
    sys.exit(main())
