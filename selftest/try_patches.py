#!/usr/bin/env python3
"""Run all 20 checks on a scratch copy of /repo with each given patch file applied; print SILENT/ALARM per patch (ad-hoc false-alarm probe
for behaviour-preserving patches produced outside the corpus). usage: try_patches.py file.diff ..."""
import os, subprocess, sys, tempfile, shutil, re
VERIF = os.path.dirname(os.path.dirname(os.path.abspath(__file__)))
REPO = os.environ.get("BT_REPO", "/repo")
PROPS = ["C%02d" % i for i in range(1, 21)]
for pf in sys.argv[1:]:
    d = tempfile.mkdtemp(prefix="btverif-try-")
    out = tempfile.mkdtemp(prefix="btverif-out-")
    try:
        subprocess.run(["rsync", "-a", "--exclude", "target", "--exclude", ".git", REPO + "/", d + "/"], check=True)
        r = subprocess.run(["git", "apply", "--whitespace=nowarn", os.path.abspath(pf)], cwd=d, capture_output=True, text=True)
        if r.returncode != 0:
            print("SKIPPED %s: %s" % (pf, r.stderr.strip()[:160]))
            continue
        alarms = []
        for p in PROPS:
            c = subprocess.run([os.path.join(VERIF, "check"), p, "--repo", d, "--outroot", out], capture_output=True, text=True)
            if c.returncode != 0:
                fired = re.findall(r"^\s+\[FAIL\]\s+(\S+)", c.stdout, re.M)
                first = re.findall(r"^\s+-> (.*)$", c.stdout, re.M)
                alarms.append("%s:%s (%s)" % (p, ",".join(fired), first[0][:200] if first else "rc=%d %s" % (c.returncode, (c.stderr or c.stdout)[-200:])))
        print(("ALARM   %s  %s" % (pf, "; ".join(alarms))) if alarms else "SILENT  %s" % pf)
    finally:
        shutil.rmtree(d, ignore_errors=True)
        shutil.rmtree(out, ignore_errors=True)
