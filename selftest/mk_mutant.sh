#!/bin/sh
# usage: mk_mutant.sh <out.patch> <repo-relative file> <sed -E expr>   -> writes a git patch against /repo HEAD
out="$1"; f="$2"; e="$3"
d=$(mktemp -d /tmp/btverif-mk-XXXX)
mkdir -p "$d/a/$(dirname $f)" "$d/b/$(dirname $f)"
cp "/repo/$f" "$d/a/$f"; cp "/repo/$f" "$d/b/$f"
sed -i -E "$e" "$d/b/$f"
(cd "$d" && diff -u "a/$f" "b/$f" | sed "1s|^--- .*|--- a/$f|;2s|^+++ .*|+++ b/$f|") > "$out"
rm -rf "$d"
test -s "$out" || { echo "empty patch"; exit 1; }
