// Positive control for C11-D3: every forbidden construct kind must be recognised in this text on every run.
use futures::stream::FuturesUnordered;
use rayon::prelude::*;
fn f() {
    let s = stream.buffer_unordered(4);
    tokio::select! { a = x => {}, b = y => {} }
    let t = std::time::SystemTime::now();
    let id = std::thread::current().id();
    let v = rx.try_recv();
}
