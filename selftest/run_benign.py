#!/usr/bin/env python3
"""False-alarm self-test: apply each behaviour-preserving patch to a scratch copy of /repo and require that NO check
reports a new violation (known findings excepted). exit 0 iff all checks stay silent on all benign edits."""
import json, os, subprocess, sys, tempfile, shutil, re
VERIF = os.path.dirname(os.path.dirname(os.path.abspath(__file__)))
REPO = os.environ.get("BT_REPO", "/repo")
PROPS = ["C%02d" % i for i in range(1, 21)]


def main():
    bdir = os.path.join(VERIF, "selftest", "benign")
    meta = json.load(open(os.path.join(bdir, "meta.json")))
    names = sys.argv[1:] or sorted(meta)
    bad = 0
    for n in names:
        d = tempfile.mkdtemp(prefix="btverif-ben-")
        out = tempfile.mkdtemp(prefix="btverif-out-")
        try:
            subprocess.run(["rsync", "-a", "--exclude", "target", "--exclude", ".git", REPO + "/", d + "/"], check=True)
            r = subprocess.run(["git", "apply", "--whitespace=nowarn", os.path.join(bdir, n + ".patch")], cwd=d, capture_output=True, text=True)
            if r.returncode != 0:
                print("SKIPPED %-32s patch does not apply: %s" % (n, r.stderr.strip()[:120]))
                continue
            alarms = []
            for p in PROPS:
                c = subprocess.run([os.path.join(VERIF, "check"), p, "--repo", d, "--outroot", out], capture_output=True, text=True)
                if c.returncode != 0:
                    fired = re.findall(r"^\s+\[FAIL\]\s+(\S+)", c.stdout, re.M)
                    first = re.findall(r"^\s+-> (.*)$", c.stdout, re.M)
                    alarms.append("%s:%s (%s)" % (p, ",".join(fired), first[0][:140] if first else "rc=%d" % c.returncode))
            if alarms:
                bad += 1
                print("ALARM   %-32s %s" % (n, "; ".join(alarms)))
            else:
                print("SILENT  %-32s %s" % (n, meta[n]))
        finally:
            shutil.rmtree(d, ignore_errors=True)
            shutil.rmtree(out, ignore_errors=True)
    return 1 if bad else 0


if __name__ == "__main__":
    sys.exit(main())
