#!/usr/bin/env python3
"""False-alarm self-test: apply each behaviour-preserving patch to a scratch copy of /repo and require that NO check
reports a new violation (known findings excepted). exit 0 iff all checks stay silent on all benign edits.  usage: run_benign.py [-j N] [name ...]"""
import json, os, subprocess, sys, tempfile, shutil, re
from concurrent.futures import ThreadPoolExecutor
VERIF = os.path.dirname(os.path.dirname(os.path.abspath(__file__)))
REPO = os.environ.get("BT_REPO", "/repo")
PROPS = ["C%02d" % i for i in range(1, 21)]
BDIR = os.path.join(VERIF, "selftest", "benign")
META = json.load(open(os.path.join(BDIR, "meta.json")))


def one(n):
    d = tempfile.mkdtemp(prefix="btverif-ben-")
    out = tempfile.mkdtemp(prefix="btverif-out-")
    try:
        subprocess.run(["rsync", "-a", "--exclude", "target", "--exclude", ".git", REPO + "/", d + "/"], check=True)
        r = subprocess.run(["git", "apply", "--whitespace=nowarn", os.path.join(BDIR, n + ".patch")], cwd=d, capture_output=True, text=True)
        if r.returncode != 0:
            return "SKIPPED %-32s patch does not apply: %s" % (n, r.stderr.strip()[:120])
        alarms, und = [], 0
        for p in PROPS:
            c = subprocess.run([os.path.join(VERIF, "check"), p, "--repo", d, "--outroot", out], capture_output=True, text=True)
            und += c.stdout.count("?? undecided here")
            if c.returncode != 0:
                fired = re.findall(r"^\s+\[FAIL\]\s+(\S+)", c.stdout, re.M)
                first = re.findall(r"^\s+-> (.*)$", c.stdout, re.M)
                alarms.append("%s:%s (%s)" % (p, ",".join(fired), first[0][:140] if first else "rc=%d" % c.returncode))
        if alarms:
            return "ALARM   %-32s %s" % (n, "; ".join(alarms))
        m = META[n]
        return "SILENT  %-32s %s%s" % (n, m if isinstance(m, str) else m.get("what", ""), "  (%d undecided clause reports)" % und if und else "")
    finally:
        shutil.rmtree(d, ignore_errors=True)
        shutil.rmtree(out, ignore_errors=True)


def main():
    args = sys.argv[1:]
    j = 6
    if args and args[0] == "-j":
        j = int(args[1]); args = args[2:]
    names = args or sorted(META)
    bad = 0
    with ThreadPoolExecutor(j) as ex:
        for line in ex.map(one, names):
            print(line, flush=True)
            bad += line.startswith("ALARM")
    return 1 if bad else 0


if __name__ == "__main__":
    sys.exit(main())
