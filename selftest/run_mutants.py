#!/usr/bin/env python3
"""Checker self-validation: apply each mutant patch to a scratch copy of /repo's working tree (outside /repo and /verif,
removed afterwards), run the tagged checks against the copy and require that the expected obligation fires.
usage: run_mutants.py [--dir selftest/mutants|seeded] [name ...]      exit 0 iff every mutant is killed as expected."""
import json, os, subprocess, sys, tempfile, shutil, re
VERIF = os.path.dirname(os.path.dirname(os.path.abspath(__file__)))
REPO = os.environ.get("BT_REPO", "/repo")


def scratch_copy():
    d = tempfile.mkdtemp(prefix="btverif-mut-")
    subprocess.run(["rsync", "-a", "--exclude", "target", "--exclude", ".git", REPO + "/", d + "/"], check=True)
    return d


def run_mutant(name, patch, expect, verbose=True):
    d = scratch_copy()
    out = tempfile.mkdtemp(prefix="btverif-out-")
    try:
        r = subprocess.run(["git", "apply", "--whitespace=nowarn", patch], cwd=d, capture_output=True, text=True)
        if r.returncode != 0:
            r2 = subprocess.run(["patch", "-p1", "-s", "-f", "-i", patch], cwd=d, capture_output=True, text=True)
            if r2.returncode != 0:
                return None, "patch does not apply: %s" % (r.stderr.strip()[:200])
        ok = True
        msgs = []
        for prop, obs in expect.items():
            c = subprocess.run([os.path.join(VERIF, "check"), prop, "--repo", d, "--outroot", out], capture_output=True, text=True)
            fired = set(re.findall(r"^\s+\[FAIL\]\s+(\S+)", c.stdout, re.M))
            if c.returncode != 1 or "VIOLATION property=%s" % prop not in c.stdout:
                ok = False
                msgs.append("%s: no violation reported (rc=%d)" % (prop, c.returncode))
                continue
            miss = [o for o in obs if o not in fired]
            if miss:
                ok = False
                msgs.append("%s: fired %s, expected %s" % (prop, sorted(fired), obs))
            else:
                msgs.append("%s: killed by %s" % (prop, sorted(fired)))
        return ok, "; ".join(msgs)
    finally:
        shutil.rmtree(d, ignore_errors=True)
        shutil.rmtree(out, ignore_errors=True)


def main():
    args = sys.argv[1:]
    mdir = os.path.join(VERIF, "selftest", "mutants")
    if args and args[0] == "--dir":
        mdir = os.path.join(VERIF, args[1])
        args = args[2:]
    meta = json.load(open(os.path.join(mdir, "meta.json")))
    names = args or sorted(meta)
    bad = 0
    for n in names:
        m = meta[n]
        ok, msg = run_mutant(n, os.path.join(mdir, m.get("patch", n + ".patch")), m["expect"])
        tag = "KILLED " if ok else ("SKIPPED" if ok is None else "MISSED ")
        print("%s %-40s %s" % (tag, n, msg), flush=True)
        if ok is False:
            bad += 1
    return 1 if bad else 0


if __name__ == "__main__":
    sys.exit(main())
