#!/bin/sh
# usage: dev_on_sed.sh <repo-relative file> <sed expr> module.func [...]  -> devrun on a scratch copy of /repo with the sed edit applied (prints the diff)
f="$1"; e="$2"; shift; shift
d=$(mktemp -d /tmp/btverif-dev-XXXX)
rsync -a --exclude target --exclude .git /repo/ "$d/"
sed -i -E "$e" "$d/$f"
diff -u "/repo/$f" "$d/$f" | grep '^[-+][^-+]' | head -${DIFFLINES:-6}
(cd /verif && BT_REPO="$d" python3 -m btverif.devrun "$@" 2>&1 | grep -v "^  ok" | cut -c1-400)
rm -rf "$d"
