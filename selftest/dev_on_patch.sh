#!/bin/sh
# usage: dev_on_patch.sh <patch> module.func [...]  -> runs btverif.devrun on a scratch copy of /repo with the patch applied
p="$1"; shift
d=$(mktemp -d /tmp/btverif-dev-XXXX)
rsync -a --exclude target --exclude .git /repo/ "$d/"
(cd "$d" && git apply --whitespace=nowarn "$p") || { echo "patch does not apply"; rm -rf "$d"; exit 2; }
(cd /verif && BT_REPO="$d" python3 -m btverif.devrun "$@")
rm -rf "$d"
