//! bt-mir: rustc_private driver that dumps, for every MIR body of the crate being compiled, the resolved call sites and what
//! happens to each call's result (type-resolved facts for the R-ERR family), plus explicit panic sources.
//! Used as RUSTC_WORKSPACE_WRAPPER under `cargo +nightly check`; writes one JSON file per rustc process into $BT_MIR_OUT.
#![feature(rustc_private)]

extern crate rustc_driver;
extern crate rustc_hir;
extern crate rustc_interface;
extern crate rustc_middle;
extern crate rustc_session;
extern crate rustc_span;

use rustc_driver::Compilation;
use rustc_hir::def::DefKind;
use rustc_interface::interface;
use rustc_middle::mir::{self, Body, Local, Operand, Place, Rvalue, StatementKind, TerminatorKind};
use rustc_middle::ty::{self, Instance, Ty, TyCtxt, TypingEnv};
use rustc_span::Span;
use std::collections::BTreeSet;
use std::fmt::Write as _;

struct Cb;

impl rustc_driver::Callbacks for Cb {
    fn config(&mut self, config: &mut interface::Config) {
        config.opts.unstable_opts.mir_opt_level = Some(0);
    }
    fn after_analysis<'tcx>(&mut self, _c: &interface::Compiler, tcx: TyCtxt<'tcx>) -> Compilation {
        dump(tcx);
        Compilation::Continue
    }
}

fn esc(s: &str) -> String {
    let mut o = String::with_capacity(s.len() + 2);
    o.push('"');
    for ch in s.chars() {
        match ch {
            '"' => o.push_str("\\\""),
            '\\' => o.push_str("\\\\"),
            '\n' => o.push_str("\\n"),
            '\t' => o.push_str("\\t"),
            '\r' => o.push_str("\\r"),
            c if (c as u32) < 0x20 => {
                let _ = write!(o, "\\u{:04x}", c as u32);
            }
            c => o.push(c),
        }
    }
    o.push('"');
    o
}

fn loc(tcx: TyCtxt<'_>, sp: Span) -> (String, usize, usize, bool) {
    let expn = sp.from_expansion();
    let sp = sp.source_callsite();
    let sm = tcx.sess.source_map();
    let lo = sm.lookup_char_pos(sp.lo());
    let file = match &lo.file.name {
        rustc_span::FileName::Real(r) => r
            .local_path()
            .map(|p| p.to_string_lossy().to_string())
            .unwrap_or_else(|| format!("{:?}", r)),
        other => format!("{:?}", other),
    };
    (file, lo.line, lo.col.0 + 1, expn)
}

/// what happens to the value in `local` (following plain moves/copies/refs into other locals)
fn uses_of<'tcx>(tcx: TyCtxt<'tcx>, body: &Body<'tcx>, def_id: rustc_hir::def_id::DefId, local: Local, depth: usize, seen: &mut BTreeSet<Local>, out: &mut BTreeSet<String>) {
    if depth > 6 || !seen.insert(local) {
        return;
    }
    if local == mir::RETURN_PLACE {
        out.insert("return".to_string());
        return;
    }
    let mentions = |p: &Place<'tcx>| p.local == local;
    let op_mentions = |o: &Operand<'tcx>| match o {
        Operand::Copy(p) | Operand::Move(p) => p.local == local,
        _ => false,
    };
    for (_bb, data) in body.basic_blocks.iter_enumerated() {
        for st in &data.statements {
            if let StatementKind::Assign(b) = &st.kind {
                let (lhs, rv) = &**b;
                let mut hit = false;
                let mut kind = "";
                match rv {
                    Rvalue::Use(o, ..) => {
                        if op_mentions(o) {
                            hit = true;
                            kind = "use";
                        }
                    }
                    Rvalue::Ref(_, _, p) | Rvalue::RawPtr(_, p) => {
                        if mentions(p) {
                            hit = true;
                            kind = "ref";
                        }
                    }
                    Rvalue::Discriminant(p) => {
                        if mentions(p) {
                            out.insert("discriminant".to_string());
                        }
                    }
                    Rvalue::Cast(_, o, _) => {
                        if op_mentions(o) {
                            hit = true;
                            kind = "use";
                        }
                    }
                    Rvalue::Aggregate(_, ops) => {
                        if ops.iter().any(|o| op_mentions(o)) {
                            out.insert("aggregate".to_string());
                            hit = true;
                            kind = "use";
                        }
                    }
                    _ => {}
                }
                if hit {
                    let whole = match rv {
                        Rvalue::Use(Operand::Copy(p), ..) | Rvalue::Use(Operand::Move(p), ..) => p.projection.is_empty(),
                        Rvalue::Ref(_, _, p) | Rvalue::RawPtr(_, p) => p.projection.is_empty(),
                        _ => true,
                    };
                    if !whole {
                        out.insert("field".to_string());
                    }
                    if lhs.projection.is_empty() {
                        let _ = kind;
                        uses_of(tcx, body, def_id, lhs.local, depth + 1, seen, out);
                    } else {
                        out.insert("stored".to_string());
                    }
                }
            }
        }
        if let Some(term) = &data.terminator {
            match &term.kind {
                TerminatorKind::Call { func, args, .. } => {
                    if args.iter().any(|a| op_mentions(&a.node)) {
                        let name = callee_name(tcx, body, def_id, func);
                        out.insert(format!("call:{}", name));
                    }
                    if op_mentions(func) {
                        out.insert("called".to_string());
                    }
                }
                TerminatorKind::Drop { place, .. } => {
                    if mentions(place) && place.projection.is_empty() {
                        out.insert("drop".to_string());
                    }
                }
                TerminatorKind::SwitchInt { discr, .. } => {
                    if op_mentions(discr) {
                        out.insert("switch".to_string());
                    }
                }
                TerminatorKind::Yield { value, .. } => {
                    if op_mentions(value) {
                        out.insert("yield".to_string());
                    }
                }
                _ => {}
            }
        }
    }
}

fn callee_name<'tcx>(tcx: TyCtxt<'tcx>, body: &Body<'tcx>, def_id: rustc_hir::def_id::DefId, func: &Operand<'tcx>) -> String {
    let fty = func.ty(&body.local_decls, tcx);
    match fty.kind() {
        ty::FnDef(did, args) => {
            let env = TypingEnv::post_analysis(tcx, def_id);
            match Instance::try_resolve(tcx, env, *did, args) {
                Ok(Some(inst)) => tcx.def_path_str(inst.def_id()),
                _ => tcx.def_path_str(*did),
            }
        }
        _ => "<indirect>".to_string(),
    }
}

/// readable provenance of an operand: constant value, or the place it was copied from (with debug-info names and field names)
fn operand_prov<'tcx>(tcx: TyCtxt<'tcx>, body: &Body<'tcx>, data: &mir::BasicBlockData<'tcx>, o: &Operand<'tcx>) -> String {
    match o {
        Operand::Constant(c) => format!("const {}", c.const_),
        Operand::Copy(p) | Operand::Move(p) => {
            if p.projection.is_empty() {
                // a temporary: find its last assignment in this block
                for st in data.statements.iter().rev() {
                    if let StatementKind::Assign(b) = &st.kind {
                        let (lhs, rv) = &**b;
                        if lhs.local == p.local && lhs.projection.is_empty() {
                            return match rv {
                                Rvalue::Use(Operand::Copy(q), ..) | Rvalue::Use(Operand::Move(q), ..) => place_str(tcx, body, q),
                                Rvalue::Use(Operand::Constant(c), ..) => format!("const {}", c.const_),
                                Rvalue::Cast(_, Operand::Copy(q), t) | Rvalue::Cast(_, Operand::Move(q), t) => format!("{} as {}", place_str(tcx, body, q), t),
                                other => format!("{:?}", other).chars().take(80).collect(),
                            };
                        }
                    }
                }
            }
            place_str(tcx, body, p)
        }
        #[allow(unreachable_patterns)]
        _ => "?".to_string(),
    }
}

fn place_str<'tcx>(tcx: TyCtxt<'tcx>, body: &Body<'tcx>, p: &Place<'tcx>) -> String {
    let mut name = None;
    for vdi in &body.var_debug_info {
        if let mir::VarDebugInfoContents::Place(q) = &vdi.value {
            if q.local == p.local && q.projection.is_empty() {
                name = Some(vdi.name.to_string());
            }
        }
    }
    let mut s = name.unwrap_or_else(|| format!("_{}", p.local.index()));
    let mut pty = mir::PlaceTy::from_ty(body.local_decls[p.local].ty);
    for elem in p.projection.iter() {
        match elem {
            mir::ProjectionElem::Deref => {}
            mir::ProjectionElem::Field(f, _) => {
                let fname = match pty.ty.kind() {
                    ty::Adt(adt, _) if adt.is_struct() => adt.non_enum_variant().fields[f].name.to_string(),
                    ty::Adt(adt, _) => match pty.variant_index {
                        Some(v) => adt.variant(v).fields[f].name.to_string(),
                        None => format!("{}", f.index()),
                    },
                    _ => format!("{}", f.index()),
                };
                s.push('.');
                s.push_str(&fname);
            }
            mir::ProjectionElem::Downcast(_, v) => {
                let _ = write!(s, "@{}", v.index());
            }
            mir::ProjectionElem::Index(_) | mir::ProjectionElem::ConstantIndex { .. } | mir::ProjectionElem::Subslice { .. } => s.push_str("[..]"),
            _ => s.push_str(".?"),
        }
        pty = pty.projection_ty(tcx, elem);
    }
    s
}

fn result_parts<'tcx>(tcx: TyCtxt<'tcx>, t: Ty<'tcx>) -> Option<(String, String)> {
    if let ty::Adt(adt, args) = t.kind() {
        let p = tcx.def_path_str(adt.did());
        if p == "std::result::Result" || p == "core::result::Result" || p.ends_with("result::Result") {
            let ok = args.get(0).map(|a| format!("{}", a)).unwrap_or_default();
            let err = args.get(1).map(|a| format!("{}", a)).unwrap_or_default();
            return Some((ok, err));
        }
    }
    None
}

fn dump(tcx: TyCtxt<'_>) {
    let out_dir = match std::env::var("BT_MIR_OUT") {
        Ok(d) => d,
        Err(_) => return,
    };
    let crate_name = tcx.crate_name(rustc_hir::def_id::LOCAL_CRATE).to_string();
    let is_test = tcx.sess.is_test_crate();
    let mut bodies = Vec::new();
    let mut n_calls = 0usize;
    for ldid in tcx.hir_body_owners() {
        let def_id = ldid.to_def_id();
        let kind = tcx.def_kind(def_id);
        let kname = match kind {
            DefKind::Fn => "fn",
            DefKind::AssocFn => "assoc_fn",
            DefKind::Closure => "closure",
            _ => continue,
        };
        if !tcx.is_mir_available(def_id) {
            continue;
        }
        let body: &Body<'_> = tcx.optimized_mir(def_id);
        let name = tcx.def_path_str(def_id);
        let (file, line, _col, _e) = loc(tcx, tcx.def_span(def_id));
        let mut calls = String::new();
        let mut first = true;
        let mut panics = String::new();
        let mut pfirst = true;
        for (bb, data) in body.basic_blocks.iter_enumerated() {
            if data.is_cleanup {
                continue;
            }
            let term = match &data.terminator {
                Some(t) => t,
                None => continue,
            };
            match &term.kind {
                TerminatorKind::Call { func, destination, fn_span, .. } => {
                    let cname = callee_name(tcx, body, def_id, func);
                    let dty = destination.ty(&body.local_decls, tcx).ty;
                    let (cf, cl, cc, expn) = loc(tcx, *fn_span);
                    let mut uses = BTreeSet::new();
                    let res = result_parts(tcx, dty);
                    if res.is_some() {
                        if destination.projection.is_empty() {
                            let mut seen = BTreeSet::new();
                            uses_of(tcx, body, def_id, destination.local, 0, &mut seen, &mut uses);
                        } else {
                            uses.insert("stored".to_string());
                        }
                    }
                    if !first {
                        calls.push(',');
                    }
                    first = false;
                    n_calls += 1;
                    let _ = write!(
                        calls,
                        "{{\"bb\":{},\"callee\":{},\"ret\":{},\"file\":{},\"line\":{},\"col\":{},\"expn\":{}",
                        bb.index(),
                        esc(&cname),
                        esc(&format!("{}", dty)),
                        esc(&cf),
                        cl,
                        cc,
                        expn
                    );
                    if let Some((ok, err)) = res {
                        let us: Vec<String> = uses.iter().map(|u| esc(u)).collect();
                        let _ = write!(calls, ",\"ok\":{},\"err\":{},\"uses\":[{}]", esc(&ok), esc(&err), us.join(","));
                    } else if (cname.ends_with("::ok") || cname.ends_with("::err")) && cname.contains("result::Result") {
                        // `r.ok()` / `r.err()`: what happens to the Option decides whether the failure was looked at
                        let mut ouses = BTreeSet::new();
                        if destination.projection.is_empty() {
                            let mut seen = BTreeSet::new();
                            uses_of(tcx, body, def_id, destination.local, 0, &mut seen, &mut ouses);
                        } else {
                            ouses.insert("stored".to_string());
                        }
                        let us: Vec<String> = ouses.iter().map(|u| esc(u)).collect();
                        let _ = write!(calls, ",\"opt_uses\":[{}]", us.join(","));
                    }
                    calls.push('}');
                }
                TerminatorKind::Assert { msg, cond, .. } => {
                    let (pf, pl, _pc, expn) = loc(tcx, term.source_info.span);
                    if !pfirst {
                        panics.push(',');
                    }
                    pfirst = false;
                    let k = format!("{:?}", msg);
                    let k = k.split('(').next().unwrap_or("").to_string();
                    let _ = write!(panics, "{{\"kind\":{},\"file\":{},\"line\":{},\"expn\":{}", esc(&k), esc(&pf), pl, expn);
                    if let mir::AssertKind::Overflow(op, l, r) = &**msg {
                        let lt = l.ty(&body.local_decls, tcx);
                        let _ = write!(
                            panics,
                            ",\"op\":{},\"ty\":{},\"l\":{},\"r\":{}",
                            esc(&format!("{:?}", op)),
                            esc(&format!("{}", lt)),
                            esc(&operand_prov(tcx, body, data, l)),
                            esc(&operand_prov(tcx, body, data, r))
                        );
                    }
                    if matches!(&**msg, mir::AssertKind::DivisionByZero(..) | mir::AssertKind::RemainderByZero(..)) {
                        // the divisor is the operand compared with zero to compute the assert condition
                        let mut divisor = "?".to_string();
                        let mut dty = "?".to_string();
                        if let Operand::Copy(cp) | Operand::Move(cp) = cond {
                            for st in data.statements.iter().rev() {
                                if let StatementKind::Assign(b) = &st.kind {
                                    let (lhs, rv) = &**b;
                                    if lhs.local == cp.local && lhs.projection.is_empty() {
                                        if let Rvalue::BinaryOp(mir::BinOp::Eq, ops) = rv {
                                            let (a, _z) = &**ops;
                                            divisor = operand_prov(tcx, body, data, a);
                                            dty = format!("{}", a.ty(&body.local_decls, tcx));
                                        }
                                        break;
                                    }
                                }
                            }
                        }
                        let _ = write!(panics, ",\"ty\":{},\"r\":{}", esc(&dty), esc(&divisor));
                    }
                    panics.push('}');
                }
                _ => {}
            }
        }
        let ret = format!("{}", body.local_decls[mir::RETURN_PLACE].ty);
        bodies.push(format!(
            "{{\"fn\":{},\"kind\":\"{}\",\"file\":{},\"line\":{},\"ret\":{},\"calls\":[{}],\"asserts\":[{}]}}",
            esc(&name),
            kname,
            esc(&file),
            line,
            esc(&ret),
            calls,
            panics
        ));
    }
    let doc = format!(
        "{{\"crate\":{},\"test\":{},\"bodies\":{},\"n_calls\":{},\"data\":[{}]}}\n",
        esc(&crate_name),
        is_test,
        bodies.len(),
        n_calls,
        bodies.join(",\n")
    );
    let fname = format!("{}/{}-{}-{}.json", out_dir, crate_name, if is_test { "test" } else { "main" }, std::process::id());
    let _ = std::fs::create_dir_all(&out_dir);
    std::fs::write(fname, doc).expect("bt-mir: cannot write facts");
}

fn main() {
    let mut args: Vec<String> = std::env::args().collect();
    // as RUSTC_WORKSPACE_WRAPPER, argv[1] is the path of the real rustc
    if args.len() > 1 && (args[1].ends_with("rustc") || args[1].ends_with("rustc-shim")) {
        args.remove(1);
    }
    rustc_driver::run_compiler(&args, &mut Cb);
}
