//! bt-ast: parse Rust sources with syn and dump a JSON syntax tree with spans.
//!
//! usage: bt-ast <out.json> <root-dir> <file.rs>...
//! Every node is an object with "k" (kind) and "sp" = [line0,col0,line1,col1]
//! (lines 1-based, columns 0-based, in chars). Types are token strings.

use proc_macro2::Span;
use quote::ToTokens;
use serde_json::{json, Map, Value};
use syn::punctuated::Punctuated;
use syn::spanned::Spanned;
use syn::*;

fn sp(s: Span) -> Value {
    let a = s.start();
    let b = s.end();
    json!([a.line, a.column, b.line, b.column])
}

fn toks<T: ToTokens>(t: &T) -> String {
    norm_tokens(&t.to_token_stream().to_string())
}

/// Canonical token text: single spaces only between two identifier-like
/// characters; everything else glued.
fn norm_tokens(s: &str) -> String {
    let mut out = String::with_capacity(s.len());
    let mut pending_space = false;
    let mut last: Option<char> = None;
    for c in s.chars() {
        if c.is_whitespace() {
            pending_space = true;
            continue;
        }
        if pending_space {
            if let Some(l) = last {
                let idl = l.is_alphanumeric() || l == '_' || l == '"' || l == '\'';
                let idc = c.is_alphanumeric() || c == '_' || c == '"' || c == '\'';
                if idl && idc {
                    out.push(' ');
                }
            }
            pending_space = false;
        }
        out.push(c);
        last = Some(c);
    }
    out
}

fn node(k: &str, s: Span) -> Map<String, Value> {
    let mut m = Map::new();
    m.insert("k".into(), Value::String(k.into()));
    m.insert("sp".into(), sp(s));
    m
}

fn attrs(a: &[Attribute]) -> Value {
    Value::Array(a.iter().map(|x| Value::String(toks(x))).collect())
}

fn opt<T>(o: Option<T>, f: impl FnOnce(T) -> Value) -> Value {
    match o {
        Some(x) => f(x),
        None => Value::Null,
    }
}

fn path_str(p: &Path) -> String {
    let mut s = String::new();
    if p.leading_colon.is_some() {
        s.push_str("::");
    }
    let mut first = true;
    for seg in &p.segments {
        if !first {
            s.push_str("::");
        }
        first = false;
        s.push_str(&seg.ident.to_string());
    }
    s
}

fn path_generics(p: &Path) -> Value {
    // turbofish / generic args of the last segment carrying any
    let mut out = vec![];
    for seg in &p.segments {
        if let PathArguments::AngleBracketed(a) = &seg.arguments {
            for g in &a.args {
                out.push(Value::String(toks(g)));
            }
        }
    }
    Value::Array(out)
}

fn lit(l: &Lit) -> Value {
    let mut m = node("lit", l.span());
    match l {
        Lit::Str(s) => {
            m.insert("t".into(), "str".into());
            m.insert("v".into(), Value::String(s.value()));
        }
        Lit::ByteStr(s) => {
            m.insert("t".into(), "bytestr".into());
            m.insert(
                "v".into(),
                Value::Array(s.value().into_iter().map(|b| json!(b)).collect()),
            );
        }
        Lit::Byte(b) => {
            m.insert("t".into(), "byte".into());
            m.insert("v".into(), json!(b.value()));
        }
        Lit::Char(c) => {
            m.insert("t".into(), "char".into());
            m.insert("v".into(), Value::String(c.value().to_string()));
        }
        Lit::Int(i) => {
            m.insert("t".into(), "int".into());
            m.insert("v".into(), Value::String(i.base10_digits().to_string()));
            m.insert("suffix".into(), Value::String(i.suffix().to_string()));
        }
        Lit::Float(f) => {
            m.insert("t".into(), "float".into());
            m.insert("v".into(), Value::String(f.base10_digits().to_string()));
            m.insert("suffix".into(), Value::String(f.suffix().to_string()));
        }
        Lit::Bool(b) => {
            m.insert("t".into(), "bool".into());
            m.insert("v".into(), json!(b.value));
        }
        other => {
            m.insert("t".into(), "other".into());
            m.insert("v".into(), Value::String(toks(other)));
        }
    }
    Value::Object(m)
}

fn member(m: &Member) -> String {
    match m {
        Member::Named(i) => i.to_string(),
        Member::Unnamed(i) => i.index.to_string(),
    }
}

fn block(b: &Block) -> Value {
    let mut m = node("block", b.span());
    m.insert(
        "stmts".into(),
        Value::Array(b.stmts.iter().map(stmt).collect()),
    );
    Value::Object(m)
}

fn mac(mc: &Macro, s: Span) -> Value {
    let mut m = node("macro", s);
    m.insert("path".into(), Value::String(path_str(&mc.path)));
    m.insert("tokens".into(), Value::String(norm_tokens(&mc.tokens.to_string())));
    // try: comma separated expressions
    let parser = Punctuated::<Expr, Token![,]>::parse_terminated;
    if let Ok(args) = parse::Parser::parse2(parser, mc.tokens.clone()) {
        m.insert(
            "args".into(),
            Value::Array(args.iter().map(expr).collect()),
        );
    } else if let Ok(rep) = parse2::<ExprRepeatInner>(mc.tokens.clone()) {
        // vec![x; n]
        m.insert("repeat".into(), json!({"e": expr(&rep.e), "len": expr(&rep.len)}));
    }
    Value::Object(m)
}

struct ExprRepeatInner {
    e: Expr,
    len: Expr,
}
impl parse::Parse for ExprRepeatInner {
    fn parse(input: parse::ParseStream) -> Result<Self> {
        let e: Expr = input.parse()?;
        let _: Token![;] = input.parse()?;
        let len: Expr = input.parse()?;
        Ok(ExprRepeatInner { e, len })
    }
}

fn stmt(s: &Stmt) -> Value {
    match s {
        Stmt::Local(l) => {
            let mut m = node("let", l.span());
            m.insert("pat".into(), pat(&l.pat));
            m.insert("attrs".into(), attrs(&l.attrs));
            match &l.init {
                Some(i) => {
                    m.insert("init".into(), expr(&i.expr));
                    m.insert(
                        "else".into(),
                        opt(i.diverge.as_ref(), |(_, e)| expr(e)),
                    );
                }
                None => {
                    m.insert("init".into(), Value::Null);
                    m.insert("else".into(), Value::Null);
                }
            }
            Value::Object(m)
        }
        Stmt::Item(i) => {
            let mut m = node("item_stmt", i.span());
            m.insert("item".into(), item(i));
            Value::Object(m)
        }
        Stmt::Expr(e, semi) => {
            let mut m = node("expr_stmt", e.span());
            m.insert("e".into(), expr(e));
            m.insert("semi".into(), json!(semi.is_some()));
            Value::Object(m)
        }
        Stmt::Macro(sm) => {
            let mut m = node("expr_stmt", sm.span());
            m.insert("e".into(), mac(&sm.mac, sm.span()));
            m.insert("semi".into(), json!(sm.semi_token.is_some()));
            Value::Object(m)
        }
    }
}

fn pat(p: &Pat) -> Value {
    match p {
        Pat::Ident(i) => {
            let mut m = node("p_ident", i.span());
            m.insert("name".into(), Value::String(i.ident.to_string()));
            m.insert("byref".into(), json!(i.by_ref.is_some()));
            m.insert("mut".into(), json!(i.mutability.is_some()));
            m.insert("sub".into(), opt(i.subpat.as_ref(), |(_, p)| pat(p)));
            Value::Object(m)
        }
        Pat::Tuple(t) => {
            let mut m = node("p_tuple", t.span());
            m.insert("elems".into(), Value::Array(t.elems.iter().map(pat).collect()));
            Value::Object(m)
        }
        Pat::TupleStruct(t) => {
            let mut m = node("p_tstruct", t.span());
            m.insert("path".into(), Value::String(path_str(&t.path)));
            m.insert("elems".into(), Value::Array(t.elems.iter().map(pat).collect()));
            Value::Object(m)
        }
        Pat::Struct(t) => {
            let mut m = node("p_struct", t.span());
            m.insert("path".into(), Value::String(path_str(&t.path)));
            m.insert(
                "fields".into(),
                Value::Array(
                    t.fields
                        .iter()
                        .map(|f| json!({"name": member(&f.member), "pat": pat(&f.pat)}))
                        .collect(),
                ),
            );
            m.insert("rest".into(), json!(t.rest.is_some()));
            Value::Object(m)
        }
        Pat::Path(pp) => {
            let mut m = node("p_path", pp.span());
            m.insert("path".into(), Value::String(path_str(&pp.path)));
            Value::Object(m)
        }
        Pat::Lit(l) => {
            let mut m = node("p_lit", l.span());
            m.insert("lit".into(), lit(&l.lit));
            Value::Object(m)
        }
        Pat::Wild(w) => Value::Object(node("p_wild", w.span())),
        Pat::Rest(r) => Value::Object(node("p_rest", r.span())),
        Pat::Or(o) => {
            let mut m = node("p_or", o.span());
            m.insert("cases".into(), Value::Array(o.cases.iter().map(pat).collect()));
            Value::Object(m)
        }
        Pat::Reference(r) => {
            let mut m = node("p_ref", r.span());
            m.insert("mut".into(), json!(r.mutability.is_some()));
            m.insert("pat".into(), pat(&r.pat));
            Value::Object(m)
        }
        Pat::Type(t) => {
            let mut m = node("p_type", t.span());
            m.insert("pat".into(), pat(&t.pat));
            m.insert("ty".into(), Value::String(toks(&t.ty)));
            Value::Object(m)
        }
        Pat::Slice(s) => {
            let mut m = node("p_slice", s.span());
            m.insert("elems".into(), Value::Array(s.elems.iter().map(pat).collect()));
            Value::Object(m)
        }
        Pat::Paren(p) => pat(&p.pat),
        Pat::Range(r) => {
            let mut m = node("p_range", r.span());
            m.insert("t".into(), Value::String(toks(r)));
            Value::Object(m)
        }
        other => {
            let mut m = node("p_other", other.span());
            m.insert("t".into(), Value::String(toks(other)));
            Value::Object(m)
        }
    }
}

fn binop(op: &BinOp) -> &'static str {
    match op {
        BinOp::Add(_) => "+",
        BinOp::Sub(_) => "-",
        BinOp::Mul(_) => "*",
        BinOp::Div(_) => "/",
        BinOp::Rem(_) => "%",
        BinOp::And(_) => "&&",
        BinOp::Or(_) => "||",
        BinOp::BitXor(_) => "^",
        BinOp::BitAnd(_) => "&",
        BinOp::BitOr(_) => "|",
        BinOp::Shl(_) => "<<",
        BinOp::Shr(_) => ">>",
        BinOp::Eq(_) => "==",
        BinOp::Lt(_) => "<",
        BinOp::Le(_) => "<=",
        BinOp::Ne(_) => "!=",
        BinOp::Ge(_) => ">=",
        BinOp::Gt(_) => ">",
        BinOp::AddAssign(_) => "+=",
        BinOp::SubAssign(_) => "-=",
        BinOp::MulAssign(_) => "*=",
        BinOp::DivAssign(_) => "/=",
        BinOp::RemAssign(_) => "%=",
        BinOp::BitXorAssign(_) => "^=",
        BinOp::BitAndAssign(_) => "&=",
        BinOp::BitOrAssign(_) => "|=",
        BinOp::ShlAssign(_) => "<<=",
        BinOp::ShrAssign(_) => ">>=",
        _ => "?",
    }
}

fn expr(e: &Expr) -> Value {
    match e {
        Expr::Lit(l) => lit(&l.lit),
        Expr::Path(p) => {
            let mut m = node("path", p.span());
            m.insert("path".into(), Value::String(path_str(&p.path)));
            let g = path_generics(&p.path);
            if g.as_array().map(|a| !a.is_empty()).unwrap_or(false) {
                m.insert("generics".into(), g);
            }
            if let Some(q) = &p.qself {
                m.insert("qself".into(), Value::String(toks(&q.ty)));
            }
            Value::Object(m)
        }
        Expr::Call(c) => {
            let mut m = node("call", c.span());
            m.insert("func".into(), expr(&c.func));
            m.insert("args".into(), Value::Array(c.args.iter().map(expr).collect()));
            Value::Object(m)
        }
        Expr::MethodCall(c) => {
            let mut m = node("mcall", c.span());
            m.insert("recv".into(), expr(&c.receiver));
            m.insert("method".into(), Value::String(c.method.to_string()));
            m.insert("msp".into(), sp(c.method.span()));
            m.insert(
                "turbofish".into(),
                opt(c.turbofish.as_ref(), |t| {
                    Value::Array(t.args.iter().map(|a| Value::String(toks(a))).collect())
                }),
            );
            m.insert("args".into(), Value::Array(c.args.iter().map(expr).collect()));
            Value::Object(m)
        }
        Expr::Binary(b) => {
            let mut m = node("binary", b.span());
            m.insert("op".into(), Value::String(binop(&b.op).into()));
            m.insert("l".into(), expr(&b.left));
            m.insert("r".into(), expr(&b.right));
            Value::Object(m)
        }
        Expr::Unary(u) => {
            let mut m = node("unary", u.span());
            let op = match u.op {
                UnOp::Deref(_) => "*",
                UnOp::Not(_) => "!",
                UnOp::Neg(_) => "-",
                _ => "?",
            };
            m.insert("op".into(), Value::String(op.into()));
            m.insert("e".into(), expr(&u.expr));
            Value::Object(m)
        }
        Expr::Assign(a) => {
            let mut m = node("assign", a.span());
            m.insert("l".into(), expr(&a.left));
            m.insert("r".into(), expr(&a.right));
            Value::Object(m)
        }
        Expr::Field(f) => {
            let mut m = node("field", f.span());
            m.insert("base".into(), expr(&f.base));
            m.insert("member".into(), Value::String(member(&f.member)));
            Value::Object(m)
        }
        Expr::Index(i) => {
            let mut m = node("index", i.span());
            m.insert("base".into(), expr(&i.expr));
            m.insert("index".into(), expr(&i.index));
            Value::Object(m)
        }
        Expr::If(i) => {
            let mut m = node("if", i.span());
            m.insert("cond".into(), expr(&i.cond));
            m.insert("then".into(), block(&i.then_branch));
            m.insert(
                "else".into(),
                opt(i.else_branch.as_ref(), |(_, e)| expr(e)),
            );
            Value::Object(m)
        }
        Expr::Match(mt) => {
            let mut m = node("match", mt.span());
            m.insert("scrut".into(), expr(&mt.expr));
            m.insert(
                "arms".into(),
                Value::Array(
                    mt.arms
                        .iter()
                        .map(|a| {
                            let mut am = node("arm", a.span());
                            am.insert("pat".into(), pat(&a.pat));
                            am.insert(
                                "guard".into(),
                                opt(a.guard.as_ref(), |(_, g)| expr(g)),
                            );
                            am.insert("body".into(), expr(&a.body));
                            Value::Object(am)
                        })
                        .collect(),
                ),
            );
            Value::Object(m)
        }
        Expr::Loop(l) => {
            let mut m = node("loop", l.span());
            m.insert(
                "label".into(),
                opt(l.label.as_ref(), |l| Value::String(l.name.ident.to_string())),
            );
            m.insert("body".into(), block(&l.body));
            Value::Object(m)
        }
        Expr::While(w) => {
            let mut m = node("while", w.span());
            m.insert(
                "label".into(),
                opt(w.label.as_ref(), |l| Value::String(l.name.ident.to_string())),
            );
            m.insert("cond".into(), expr(&w.cond));
            m.insert("body".into(), block(&w.body));
            Value::Object(m)
        }
        Expr::ForLoop(f) => {
            let mut m = node("for", f.span());
            m.insert(
                "label".into(),
                opt(f.label.as_ref(), |l| Value::String(l.name.ident.to_string())),
            );
            m.insert("pat".into(), pat(&f.pat));
            m.insert("iter".into(), expr(&f.expr));
            m.insert("body".into(), block(&f.body));
            Value::Object(m)
        }
        Expr::Block(b) => {
            let mut v = block(&b.block);
            if let (Some(l), Value::Object(m)) = (&b.label, &mut v) {
                m.insert("label".into(), Value::String(l.name.ident.to_string()));
            }
            v
        }
        Expr::Closure(c) => {
            let mut m = node("closure", c.span());
            m.insert("inputs".into(), Value::Array(c.inputs.iter().map(pat).collect()));
            m.insert("move".into(), json!(c.capture.is_some()));
            m.insert("async".into(), json!(c.asyncness.is_some()));
            m.insert("body".into(), expr(&c.body));
            Value::Object(m)
        }
        Expr::Reference(r) => {
            let mut m = node("ref", r.span());
            m.insert("mut".into(), json!(r.mutability.is_some()));
            m.insert("e".into(), expr(&r.expr));
            Value::Object(m)
        }
        Expr::Tuple(t) => {
            let mut m = node("tuple", t.span());
            m.insert("elems".into(), Value::Array(t.elems.iter().map(expr).collect()));
            Value::Object(m)
        }
        Expr::Array(t) => {
            let mut m = node("array", t.span());
            m.insert("elems".into(), Value::Array(t.elems.iter().map(expr).collect()));
            Value::Object(m)
        }
        Expr::Repeat(r) => {
            let mut m = node("repeat", r.span());
            m.insert("e".into(), expr(&r.expr));
            m.insert("len".into(), expr(&r.len));
            Value::Object(m)
        }
        Expr::Struct(s) => {
            let mut m = node("struct", s.span());
            m.insert("path".into(), Value::String(path_str(&s.path)));
            m.insert(
                "fields".into(),
                Value::Array(
                    s.fields
                        .iter()
                        .map(|f| {
                            json!({"name": member(&f.member), "e": expr(&f.expr), "sp": sp(f.span()),
                                   "shorthand": f.colon_token.is_none()})
                        })
                        .collect(),
                ),
            );
            m.insert("rest".into(), opt(s.rest.as_ref(), |r| expr(r)));
            Value::Object(m)
        }
        Expr::Cast(c) => {
            let mut m = node("cast", c.span());
            m.insert("e".into(), expr(&c.expr));
            m.insert("ty".into(), Value::String(toks(&c.ty)));
            Value::Object(m)
        }
        Expr::Try(t) => {
            let mut m = node("try", t.span());
            m.insert("e".into(), expr(&t.expr));
            Value::Object(m)
        }
        Expr::Await(a) => {
            let mut m = node("await", a.span());
            m.insert("e".into(), expr(&a.base));
            Value::Object(m)
        }
        Expr::Return(r) => {
            let mut m = node("return", r.span());
            m.insert("e".into(), opt(r.expr.as_ref(), |e| expr(e)));
            Value::Object(m)
        }
        Expr::Break(b) => {
            let mut m = node("break", b.span());
            m.insert(
                "label".into(),
                opt(b.label.as_ref(), |l| Value::String(l.ident.to_string())),
            );
            m.insert("e".into(), opt(b.expr.as_ref(), |e| expr(e)));
            Value::Object(m)
        }
        Expr::Continue(c) => {
            let mut m = node("continue", c.span());
            m.insert(
                "label".into(),
                opt(c.label.as_ref(), |l| Value::String(l.ident.to_string())),
            );
            Value::Object(m)
        }
        Expr::Range(r) => {
            let mut m = node("range", r.span());
            m.insert("from".into(), opt(r.start.as_ref(), |e| expr(e)));
            m.insert("to".into(), opt(r.end.as_ref(), |e| expr(e)));
            m.insert(
                "inclusive".into(),
                json!(matches!(r.limits, RangeLimits::Closed(_))),
            );
            Value::Object(m)
        }
        Expr::Paren(p) => expr(&p.expr),
        Expr::Group(g) => expr(&g.expr),
        Expr::Let(l) => {
            let mut m = node("let_expr", l.span());
            m.insert("pat".into(), pat(&l.pat));
            m.insert("e".into(), expr(&l.expr));
            Value::Object(m)
        }
        Expr::Macro(mc) => mac(&mc.mac, mc.span()),
        Expr::Async(a) => {
            let mut m = node("async", a.span());
            m.insert("move".into(), json!(a.capture.is_some()));
            m.insert("body".into(), block(&a.block));
            Value::Object(m)
        }
        Expr::Unsafe(u) => {
            let mut m = node("unsafe", u.span());
            m.insert("body".into(), block(&u.block));
            Value::Object(m)
        }
        other => {
            let mut m = node("other", other.span());
            m.insert("t".into(), Value::String(toks(other)));
            Value::Object(m)
        }
    }
}

fn fields(f: &Fields) -> Value {
    Value::Array(
        f.iter()
            .enumerate()
            .map(|(i, f)| {
                json!({
                    "name": f.ident.as_ref().map(|x| x.to_string()).unwrap_or_else(|| i.to_string()),
                    "ty": toks(&f.ty),
                    "vis": toks(&f.vis),
                    "attrs": attrs(&f.attrs),
                    "sp": sp(f.span()),
                })
            })
            .collect(),
    )
}

fn sig(s: &Signature) -> Value {
    let inputs: Vec<Value> = s
        .inputs
        .iter()
        .map(|a| match a {
            FnArg::Receiver(r) => json!({"self": true, "t": toks(r)}),
            FnArg::Typed(t) => json!({"pat": pat(&t.pat), "ty": toks(&t.ty)}),
        })
        .collect();
    json!({
        "name": s.ident.to_string(),
        "async": s.asyncness.is_some(),
        "unsafe": s.unsafety.is_some(),
        "generics": toks(&s.generics),
        "where": s.generics.where_clause.as_ref().map(|w| toks(w)),
        "inputs": inputs,
        "output": match &s.output { ReturnType::Default => Value::Null, ReturnType::Type(_, t) => Value::String(toks(t)) },
    })
}

fn item(i: &Item) -> Value {
    match i {
        Item::Fn(f) => {
            let mut m = node("fn", f.span());
            m.insert("name".into(), Value::String(f.sig.ident.to_string()));
            m.insert("vis".into(), Value::String(toks(&f.vis)));
            m.insert("attrs".into(), attrs(&f.attrs));
            m.insert("sig".into(), sig(&f.sig));
            m.insert("body".into(), block(&f.block));
            Value::Object(m)
        }
        Item::Impl(im) => {
            let mut m = node("impl", im.span());
            m.insert("self_ty".into(), Value::String(toks(&im.self_ty)));
            m.insert(
                "trait".into(),
                opt(im.trait_.as_ref(), |(_, p, _)| Value::String(toks(p))),
            );
            m.insert("generics".into(), Value::String(toks(&im.generics)));
            m.insert("attrs".into(), attrs(&im.attrs));
            let items: Vec<Value> = im
                .items
                .iter()
                .map(|ii| match ii {
                    ImplItem::Fn(f) => {
                        let mut fm = node("fn", f.span());
                        fm.insert("name".into(), Value::String(f.sig.ident.to_string()));
                        fm.insert("vis".into(), Value::String(toks(&f.vis)));
                        fm.insert("attrs".into(), attrs(&f.attrs));
                        fm.insert("sig".into(), sig(&f.sig));
                        fm.insert("body".into(), block(&f.block));
                        Value::Object(fm)
                    }
                    ImplItem::Const(c) => {
                        let mut cm = node("const", c.span());
                        cm.insert("name".into(), Value::String(c.ident.to_string()));
                        cm.insert("ty".into(), Value::String(toks(&c.ty)));
                        cm.insert("e".into(), expr(&c.expr));
                        Value::Object(cm)
                    }
                    ImplItem::Type(t) => {
                        let mut tm = node("type", t.span());
                        tm.insert("name".into(), Value::String(t.ident.to_string()));
                        tm.insert("ty".into(), Value::String(toks(&t.ty)));
                        Value::Object(tm)
                    }
                    other => {
                        let mut om = node("other_item", other.span());
                        om.insert("t".into(), Value::String(toks(other)));
                        Value::Object(om)
                    }
                })
                .collect();
            m.insert("items".into(), Value::Array(items));
            Value::Object(m)
        }
        Item::Mod(md) => {
            let mut m = node("mod", md.span());
            m.insert("name".into(), Value::String(md.ident.to_string()));
            m.insert("attrs".into(), attrs(&md.attrs));
            m.insert("vis".into(), Value::String(toks(&md.vis)));
            m.insert(
                "items".into(),
                opt(md.content.as_ref(), |(_, items)| {
                    Value::Array(items.iter().map(item).collect())
                }),
            );
            Value::Object(m)
        }
        Item::Struct(s) => {
            let mut m = node("struct_def", s.span());
            m.insert("name".into(), Value::String(s.ident.to_string()));
            m.insert("attrs".into(), attrs(&s.attrs));
            m.insert("vis".into(), Value::String(toks(&s.vis)));
            m.insert("generics".into(), Value::String(toks(&s.generics)));
            m.insert("fields".into(), fields(&s.fields));
            m.insert("tuple".into(), json!(matches!(s.fields, Fields::Unnamed(_))));
            Value::Object(m)
        }
        Item::Enum(e) => {
            let mut m = node("enum_def", e.span());
            m.insert("name".into(), Value::String(e.ident.to_string()));
            m.insert("attrs".into(), attrs(&e.attrs));
            m.insert("vis".into(), Value::String(toks(&e.vis)));
            m.insert(
                "variants".into(),
                Value::Array(
                    e.variants
                        .iter()
                        .map(|v| {
                            json!({"name": v.ident.to_string(), "fields": fields(&v.fields), "attrs": attrs(&v.attrs), "sp": sp(v.span())})
                        })
                        .collect(),
                ),
            );
            Value::Object(m)
        }
        Item::Const(c) => {
            let mut m = node("const", c.span());
            m.insert("name".into(), Value::String(c.ident.to_string()));
            m.insert("vis".into(), Value::String(toks(&c.vis)));
            m.insert("ty".into(), Value::String(toks(&c.ty)));
            m.insert("e".into(), expr(&c.expr));
            Value::Object(m)
        }
        Item::Static(c) => {
            let mut m = node("static", c.span());
            m.insert("name".into(), Value::String(c.ident.to_string()));
            m.insert("ty".into(), Value::String(toks(&c.ty)));
            m.insert("e".into(), expr(&c.expr));
            Value::Object(m)
        }
        Item::Trait(t) => {
            let mut m = node("trait", t.span());
            m.insert("name".into(), Value::String(t.ident.to_string()));
            m.insert("attrs".into(), attrs(&t.attrs));
            let items: Vec<Value> = t
                .items
                .iter()
                .map(|ti| match ti {
                    TraitItem::Fn(f) => {
                        let mut fm = node("fn", f.span());
                        fm.insert("name".into(), Value::String(f.sig.ident.to_string()));
                        fm.insert("vis".into(), Value::String(String::new()));
                        fm.insert("attrs".into(), attrs(&f.attrs));
                        fm.insert("sig".into(), sig(&f.sig));
                        fm.insert("body".into(), opt(f.default.as_ref(), |b| block(b)));
                        Value::Object(fm)
                    }
                    other => {
                        let mut om = node("other_item", other.span());
                        om.insert("t".into(), Value::String(toks(other)));
                        Value::Object(om)
                    }
                })
                .collect();
            m.insert("items".into(), Value::Array(items));
            Value::Object(m)
        }
        Item::Use(u) => {
            let mut m = node("use", u.span());
            m.insert("t".into(), Value::String(toks(&u.tree)));
            m.insert("vis".into(), Value::String(toks(&u.vis)));
            Value::Object(m)
        }
        Item::Type(t) => {
            let mut m = node("type", t.span());
            m.insert("name".into(), Value::String(t.ident.to_string()));
            m.insert("ty".into(), Value::String(toks(&t.ty)));
            Value::Object(m)
        }
        Item::Macro(mc) => {
            let mut v = mac(&mc.mac, mc.span());
            if let Value::Object(m) = &mut v {
                m.insert("k".into(), "item_macro".into());
                m.insert(
                    "name".into(),
                    opt(mc.ident.as_ref(), |i| Value::String(i.to_string())),
                );
            }
            v
        }
        other => {
            let mut m = node("other_item", other.span());
            m.insert("t".into(), Value::String(toks(other)));
            Value::Object(m)
        }
    }
}

fn main() {
    let args: Vec<String> = std::env::args().collect();
    if args.len() < 3 {
        eprintln!("usage: bt-ast <out.json> <root> <files...>");
        std::process::exit(2);
    }
    let out = &args[1];
    let root = &args[2];
    let mut files = vec![];
    let mut failed = false;
    for f in &args[3..] {
        let src = match std::fs::read_to_string(f) {
            Ok(s) => s,
            Err(e) => {
                eprintln!("bt-ast: cannot read {}: {}", f, e);
                failed = true;
                continue;
            }
        };
        let rel = f.strip_prefix(root).unwrap_or(f).trim_start_matches('/').to_string();
        match syn::parse_file(&src) {
            Ok(file) => {
                let items: Vec<Value> = file.items.iter().map(item).collect();
                files.push(json!({"file": rel, "attrs": attrs(&file.attrs), "items": items}));
            }
            Err(e) => {
                eprintln!("bt-ast: parse error in {}: {}", f, e);
                failed = true;
                files.push(json!({"file": rel, "parse_error": e.to_string()}));
            }
        }
    }
    let doc = json!({"root": root, "files": files});
    std::fs::write(out, serde_json::to_vec(&doc).unwrap()).unwrap();
    if failed {
        std::process::exit(3);
    }
}
